"""Structured scenario generator for the daemon-level correspondence (mostly valid JET sessions built
from the protocol's own grammar, plus a malformed stream).  Every choice comes from the rng handed in."""
from .daemon import Scenario, obj

PATHS = ["a", "a/b", "a/b/c", "A/B", "ab", "b", "m", "m/x", "", "zzé", "long/" + "p" * 40, "a/B"]
GROUPS = ["g0", "g1", "g2", "admins", "ops", "G0", "Ops"]
ORIGINS = ["local6", "remote6", "mapped6", "mappedremote6"]


def rvalue(r, depth=0):
    k = r.randrange(10 if depth < 2 else 7)
    if k == 0:
        return None
    if k == 1:
        return r.random() < 0.5
    if k == 2:
        return r.randrange(-5, 100)
    if k == 3:
        return r.choice([0.5, -1.25, 1e10, 3000000000, 17.5, 1e-3, 1.0000000000000004, 1.0000000000000007])
    if k in (4, 5):
        return r.choice(["", "x", "hello", "café", "q\"uote", "back\\slash", "tab\t"])
    if k == 6:
        return r.randrange(1000)
    if k in (7, 8):
        return [rvalue(r, depth + 1) for _ in range(r.randrange(4))]
    return obj(*[(r.choice(["a", "b", "value", "id", "A"]), rvalue(r, depth + 1)) for _ in range(r.randrange(4))])


ANSWERABLE_ONLY = [False]


def rid(r):
    if ANSWERABLE_ONLY[0]:
        return r.choice([r.randrange(1, 50), r.choice(["x", "id1", "req-7", "A_b"]), r.randrange(100, 200)])
    k = r.randrange(12)
    if k < 5:
        return r.randrange(1, 50)
    if k < 8:
        return r.choice(["x", "id1", "req-7", "", "q\"1", "A_b"])
    if k == 8:
        return r.choice([17.5, -0.5, 3000000000, 1e300])
    if k == 9:
        return None          # sentinel: no id member
    if k == 10 and r.random() < 0.5:
        # long ids that agree in their first 70 characters
        return "L" * 70 + r.choice(["a", "b", "c"]) * r.randrange(1, 4)
    if k == 10:
        return r.choice([True, [1], obj(a=1)])   # unsupported id types (JSON null is not distinguishable from "absent" here)
    return r.randrange(1, 5)


def with_id(r, members, idv="auto"):
    """request object; the id member is placed at a random position, sometimes with a case-varied key or duplicated"""
    if idv == "auto":
        idv = rid(r)
    ms = list(members)
    if idv is not None:
        key = "id" if r.random() < 0.9 else r.choice(["ID", "Id"])
        ms.insert(r.randrange(len(ms) + 1), (key, idv))
        if r.random() < 0.04 and not ANSWERABLE_ONLY[0]:
            ms.append(("id", rid(r) or 1))
    return obj(*ms)


def rrule(r):
    kinds = ["equals", "equalsNot", "startsWith", "endsWith", "contains", "containsAllOf"]
    ops = ["a", "b", "A", "a/", "/b", "m", "", "B", "ab", "x", "a/b"]
    n = r.choice([0, 1, 1, 1, 2, 2, 3])
    if n == 0:
        return None
    ms = []
    for _ in range(n):
        kd = r.choice(kinds)
        if kd == "containsAllOf":
            ms.append((kd, [r.choice(ops) for _ in range(r.randrange(1, 4))]))
        else:
            ms.append((kd, r.choice(ops)))
    if r.random() < 0.3:
        ms.insert(r.randrange(len(ms) + 1), ("caseInsensitive", r.random() < 0.7))
    if r.random() < 0.06:
        # member names in another case: not the option / not a matcher as far as the rule grammar goes
        ms.insert(r.randrange(len(ms) + 1), (r.choice(["CASEINSENSITIVE", "CaseInsensitive", "caseinsensitive", "Equals", "STARTSWITH", "containsallof"]),
                                              r.choice([True, False, "a", ["a"]])))
    if r.random() < 0.05:
        ms.append(r.choice([("nosuch", "a"), ("equals", 5), ("containsAllOf", []), ("containsAllOf", "a"), ("caseInsensitive", True),
                            ("containsAllOf", ["a", None]), ("containsAllOf", ["a", "b", 1]), ("containsAllOf", [True, "a"]),
                            ("containsAllOf", ["a", "/", "b", obj(a=1)])]))
    return obj(*ms)


class Gen:
    def __init__(self, r, variant="default", auth=False, nconn=None, ops=None, faults=False, ws_share=0.35, timers=True,
                 malformed=0.04, batches=0.08, allow_close=True, single=False, quiesce_close=False, close_rate=0.04, victims=0, accept_faults=False):
        self.r = r
        self.variant = variant
        self.auth = auth
        self.steps = []
        self.nconn = nconn or r.randrange(2, 6)
        self.nops = ops or r.randrange(10, 60)
        self.faults = faults
        self.ws_share = ws_share
        self.timers = timers
        self.malformed = malformed
        self.batches = batches
        self.allow_close = allow_close
        self.victims = victims            # number of pure subscribers whose send path is made to fail (C11)
        self.accept_faults = accept_faults
        self.victim_set = []
        self.quiesce_close = quiesce_close
        self.close_rate = close_rate
        self.single = single        # one request per message and per epoll batch (table-refusal oracles are per operation)
        self.next_conn = 0
        self.live = []          # live connection numbers
        self.transport = {}
        self.owned = {}         # path -> conn (believed)
        self.kind = {}          # path -> 'state'|'method'
        self.fetches = {}       # conn -> list of fetch ids
        self.routed = {}        # owner conn -> number of routed requests sent to it so far
        self.answered = {}      # owner conn -> set of k already answered
        self.users = []
        self.groups = []
        if auth:
            self.groups = list(GROUPS)
            def gs():
                return [g for g in GROUPS if r.random() < 0.4]
            self.users = [
                {"name": "alice", "password": "pw-alice", "auth": obj(fetchGroups=gs(), setGroups=gs(), callGroups=gs()), "readonly": False, "admin": False},
                {"name": "bob", "password": "bobsecret", "auth": obj(fetchGroups=gs(), setGroups=gs(), callGroups=gs()), "readonly": True, "admin": False},
                {"name": "root", "password": "toor!", "auth": obj(fetchGroups=list(GROUPS), setGroups=list(GROUPS), callGroups=list(GROUPS)), "readonly": False, "admin": True},
                {"name": "noauth", "password": "x", "auth": None, "readonly": False, "admin": False},
                # records whose auth object lacks some of the three members
                {"name": "fetchonly", "password": "fetch-pw", "auth": obj(fetchGroups=list(GROUPS)), "readonly": False, "admin": False},
                {"name": "setter", "password": "setter-pw", "auth": obj(setGroups=gs(), callGroups=gs()), "readonly": False, "admin": False},
            ]

    def connect(self):
        c = self.next_conn
        self.next_conn += 1
        tr = "ws" if self.r.random() < self.ws_share else ("uds" if self.r.random() < 0.15 else "raw")
        origin = "unix" if tr == "uds" else self.r.choice(ORIGINS)
        self.steps.append(("connect", c, tr, origin))
        self.live.append(c)
        self.transport[c] = tr
        self.fetches[c] = []
        return c

    def close(self, c):
        if self.quiesce_close:
            self.steps.append(("quiesce",))
        self.steps.append((self.r.choice(["eof", "eof", "rst", "err"]), c))
        if self.quiesce_close:
            self.steps.append(("quiesce",))
        self.live.remove(c)
        for p in [p for p, o in self.owned.items() if o == c]:
            del self.owned[p]
            self.kind.pop(p, None)

    def path(self, existing=None):
        r = self.r
        if existing is True and self.owned and r.random() < 0.9:
            return r.choice(sorted(self.owned))
        if existing is False:
            free = [p for p in PATHS if p not in self.owned]
            if free and r.random() < 0.9:
                return r.choice(free)
        return r.choice(PATHS)

    def access(self):
        r = self.r
        if r.random() < (0.6 if self.auth else 0.1):
            ms = []
            for key in ("fetchGroups", "setGroups", "callGroups"):
                if r.random() < 0.6:
                    ms.append((key, [g for g in GROUPS if r.random() < 0.4]))
            if r.random() < 0.05:
                ms.append((r.choice(["fetchGroups", "setGroups", "callGroups"]), "notanarray"))
            return obj(*ms)
        return None

    def request(self, c):
        """one request object from connection c -> AST"""
        req = self.request0(c)
        r = self.r
        if r.random() < 0.04 and isinstance(req, tuple) and req[0] == "obj":
            # params with a second, case-varied spelling of one member (cJSON lookups are case-insensitive, first match wins)
            ms = list(req[1])
            for i, (k, v) in enumerate(ms):
                if k == "params" and isinstance(v, tuple) and v[0] == "obj" and v[1]:
                    pm = list(v[1])
                    j = r.randrange(len(pm))
                    k2 = pm[j][0]
                    alt = r.choice([k2.upper(), k2.capitalize()])
                    other = r.choice(PATHS) if k2 == "path" else rvalue(r)
                    pm.insert(r.choice([0, j, len(pm)]), (alt, other))
                    ms[i] = (k, ("obj", pm))
                    break
            req = ("obj", ms)
        return req

    def request0(self, c):
        r = self.r
        k = r.choices(["add", "remove", "change", "fetch", "unfetch", "get", "set", "call", "config", "info", "auth", "passwd", "bad"],
                      [16, 7, 12, 12, 5, 6, 10, 8, 2, 2, 6 if self.auth else 1, 2 if self.auth else 0.3, 4])[0]
        if k == "add":
            p = self.path(existing=False)
            ms = [("path", p)]
            state = r.random() < 0.7
            if state:
                ms.append(("value", rvalue(r)))
            if r.random() < 0.12:
                ms.append(("fetchOnly", r.choice([True, False, True, 1])))
            if r.random() < 0.15:
                ms.append(("timeout", r.choice([0.5, 2, 1e-3, 0.0005, -1, "1", 7.25, 1.001, 0.0019, 2.0005, 1.003])))
            a = self.access()
            if a is not None:
                ms.append(("access", a))
            if p not in self.owned:
                self.owned[p] = c
                self.kind[p] = "state" if state else "method"
            return with_id(r, [("method", "add"), ("params", obj(*ms))])
        if k == "remove":
            mine = [p for p, o in self.owned.items() if o == c]
            p = r.choice(mine) if mine and r.random() < 0.8 else self.path(True)
            if self.owned.get(p) == c:
                del self.owned[p]
                self.kind.pop(p, None)
            return with_id(r, [("method", "remove"), ("params", obj(path=p))])
        if k == "change":
            mine = [p for p, o in self.owned.items() if o == c]
            p = r.choice(mine) if mine and r.random() < 0.85 else self.path(True)
            ms = [("path", p)]
            if r.random() < 0.95:
                ms.append(("value", rvalue(r)))
            return with_id(r, [("method", "change"), ("params", obj(*ms))])
        if k == "fetch":
            fid = r.choice(["f1", "f2", 1, 2, "all", 3.5, 3.25, 3, 2.5, 1727696123456, 1727696123999]) if r.random() < 0.9 else r.choice([None, True, [1]])
            ms = []
            if fid is not None or r.random() < 0.5:
                ms.append(("id", fid))
            rule = rrule(r)
            if rule is not None:
                ms.append(("path", rule if r.random() < 0.97 else "notanobject"))
            if r.random() < 0.02:
                ms.append(("match", ["a"]))
            self.fetches[c].append(fid)
            return with_id(r, [("method", "fetch"), ("params", obj(*ms))])
        if k == "unfetch":
            fid = r.choice(self.fetches[c]) if self.fetches[c] and r.random() < 0.8 else r.choice(["f1", 1, "nope"])
            return with_id(r, [("method", "unfetch"), ("params", obj(id=fid))])
        if k == "get":
            ms = []
            rule = rrule(r)
            if rule is not None:
                ms.append(("path", rule))
            return with_id(r, [("method", "get"), ("params", obj(*ms))] if r.random() < 0.95 else [("method", "get")])
        if k in ("set", "call"):
            want = "state" if k == "set" else "method"
            cands = [p for p in self.owned if self.kind.get(p) == want]
            p = r.choice(cands) if cands and r.random() < 0.85 else self.path(True)
            ms = [("path", p)]
            if k == "set":
                if r.random() < 0.93:
                    ms.append(("value", rvalue(r)))
            elif r.random() < 0.7:
                ms.append(("args", rvalue(r)))
            if self.timers and r.random() < 0.3:
                ms.append(("timeout", r.choice([0.5, 1.5, 2, 0.001, 0.0001, "x", 9.75, 1.001, 0.0019, 2.0005, 1.005, 0.0015])))
            req = with_id(r, [("method", k), ("params", obj(*ms))])
            o = self.owned.get(p)
            if o is not None and o in self.live and self.kind.get(p) == want:
                self.routed[o] = self.routed.get(o, 0) + 1     # optimistic: may have been refused
            return req
        if k == "config":
            return with_id(r, [("method", "config"), ("params", obj(name=r.choice(["peer", "n" * 30, "x" * 120, 5])))])
        if k == "info":
            return with_id(r, [("method", "info")])
        if k == "auth":
            u = r.choice(self.users) if self.users else {"name": "alice", "password": "x"}
            pw = u["password"] if r.random() < 0.7 else "wrong"
            name = u["name"] if r.random() < 0.9 else r.choice(["ALICE", "nobody", "Root"])
            ms = [("user", name), ("password", pw)]
            if r.random() < 0.05:
                ms = ms[:1]
            return with_id(r, [("method", "authenticate"), ("params", obj(*ms))])
        if k == "passwd":
            u = r.choice(self.users) if self.users else {"name": "alice"}
            return with_id(r, [("method", "passwd"), ("params", obj(user=u["name"], password=r.choice(["new1", "new2"])))])
        # malformed / unusual request shapes
        return r.choice([
            obj(method=5, id=1), obj(id=3), obj(method="add", id=4), obj(method="add", params=5, id=5),
            obj(method="add", params=obj(path=5), id=6), obj(params=obj(path="a"), id=7),
            obj(method="unknown", params=obj(), id="u"), obj(method="change", params=obj(path="a"), id=8),
            obj(result=1), obj(error=obj(code=1), id=5), obj(result=1, id="nosuchrouted"),
            obj(METHOD="info", id=9), obj(method="info", id=None), obj(method="fetch", params=obj(id=obj(a=1)), id=2),
        ])

    def owner_reply(self):
        r = self.r
        owners = [o for o in self.routed if o in self.live and self.routed[o] > 0]
        if not owners:
            return False
        o = r.choice(owners)
        kk = r.randrange(self.routed[o] + (1 if r.random() < 0.1 else 0))
        key = r.choice(["result", "result", "error"])
        if r.random() < 0.08:
            key = r.choice(["Result", "RESULT", "Error", "ERROR"])
        if r.random() < 0.1 and self.routed[o] >= 1 and not self.single:
            # the owner answers in a JSON array (one or several requests at once)
            kk = sorted(set([min(kk, self.routed[o] - 1)] + [r.randrange(self.routed[o]) for _ in range(r.randrange(0, 3))]))
        self.steps.append(("reply", o, kk, key, r.choice([True, 1, obj(code=123, message="owner says no"), rvalue(r)])))
        return True

    def build(self):
        r = self.r
        for _ in range(self.nconn):
            self.connect()
        for _ in range(self.victims):
            v = self.connect()
            rule = rrule(r)
            ms = [("id", "victim%d" % v)] + ([("path", rule)] if rule is not None and r.random() < 0.5 else [])
            self.steps.append(("msg", v, obj(method="fetch", params=obj(*ms), id=1)))
            self.live.remove(v)          # never chosen as requester, never closed by the generator
            self.victim_set.append(v)
        for v in self.victim_set:
            self.steps.append(("wmode", v, r.choice(["err", "eagain", "0:err", "3,0:eagain", "40,0,0:err", "5:err", "30,2:err"])))
        for _ in range(self.nops):
            if not self.live:
                self.connect()
            x = r.random()
            c = r.choice(self.live)
            if self.accept_faults and r.random() < 0.04:
                self.steps.append(("raw", "ACCEPTFAIL %s %d" % (r.choice(["jet", "http", "uds"]), r.choice([103, 4, 24, 23, 105, 12, 71, 1]))))
            if x < self.malformed * 0.5:
                # a valid request in a spelling only a lenient reader accepts (or just refuses): the daemon's parser decides
                from . import daemon as _D
                req = self.request(c)
                base = _D.jtext(req)
                k = r.randrange(11 if self.single else 12)    # (one request per message in the small-table profile)
                if k == 0:
                    text = base + r.choice([b" trailing", b"}", b"\x00\x00", b"{", b" [1]", b",", b"\n\n"])
                elif k == 1:
                    text = b"\xef\xbb\xbf" + base
                elif k == 2:
                    text = r.choice([b" ", b"\t\r\n ", b"\n"]) + base.replace(b",", b" ,\t", 1).replace(b":", b" : ", 2)
                elif k == 3:
                    text = base.replace(b'"method"', b'"m\\u0065thod"', 1).replace(b'"path"', b'"p\\u0061th"', 1)
                elif k == 4:
                    text = base.replace(b'"info"', b'"inf\\u006f"').replace(b'"add"', b'"\\u0061dd"').replace(b'"set"', b'"s\\u0065t"')
                elif k == 5:
                    text = base.replace(b'"id":1', b'"id":01', 1).replace(b'"id":2', b'"id":2e0', 1).replace(b'"id":3', b'"id":3.0', 1).replace(b'"value":1', b'"value":1E+0', 1)
                elif k == 6:
                    text = base.replace(b'"path":"a', b'"path":"a\\u0000zz', 1).replace(b'"path":"m', b'"path":"m\\u0000', 1)
                elif k == 7:
                    text = base.replace(b'"path":"', b'"path":"\x01\x7f', 1)
                elif k == 8:
                    text = base.replace(b'"path":"', b'"path":"\xff\xc3', 1)
                elif k == 9:
                    text = base[:-1] + b",}" if base.endswith(b"}") else base[:-1] + b",]"
                elif k == 10:
                    text = base.replace(b'"path":"', b'"path":"\\ud800', 1).replace(b'"user":"', b'"user":"\\udc00\\ud800', 1)
                else:
                    text = b"[" + base + b"," + base + b"]extra"
                if len(text) < 500:
                    self.steps.append(("msg", c, text))
                    if _D.cjson_tokens(text) is None:
                        self.live.remove(c)
                        for p_ in [p_ for p_, o in self.owned.items() if o == c]:
                            del self.owned[p_]
                            self.kind.pop(p_, None)
            elif x < self.malformed:
                self.steps.append(("msg", c, r.choice([b"{garbage", b"[1,2", b"", b"nul", b"\"str\"", b"17", b"{\"method\":\"info\",\"id\":5", b"[1]", b"[{\"method\":\"info\",\"id\":1},5]", b"\xff\xfe{}"])))
                if self.steps[-1][2] != b"":
                    self.live.remove(c)
                    for p in [p for p, o in self.owned.items() if o == c]:
                        del self.owned[p]
                        self.kind.pop(p, None)
                else:
                    self.steps.pop()
            elif x < self.malformed + self.batches and not self.single:
                n = r.randrange(0, 5)
                self.steps.append(("msg", c, [self.request(c) for _ in range(n)]))
            elif x < 0.30 and self.owner_reply():
                pass
            elif x < 0.30 + self.close_rate and self.allow_close and len(self.live) > 1:
                self.close(c)
            elif x < 0.38 and self.next_conn < 9:
                self.connect()
            elif x < 0.42 and self.timers:
                self.steps.append(("advance", r.choice([10 ** 6, 4 * 10 ** 8, 10 ** 9, 2 * 10 ** 9, 6 * 10 ** 9])))
            elif x < 0.45 and len(self.live) >= 2 and not self.single:
                # several connections ready in the same batch
                cs = r.sample(self.live, min(len(self.live), r.randrange(2, 4)))
                self.steps.append(("batch", [(cc, self.request(cc)) for cc in cs]))
            elif x < 0.47 and self.faults:
                self.steps.append(("wmode", c, r.choice(["err", "eagain", "all", "3,0,5:all", "0,0:all", "6:err", "1,1:err"])))
            else:
                self.steps.append(("msg", c, self.request(c)))
            if r.random() < 0.08:
                self.steps.append(("quiesce",))
        self.steps.append(("quiesce",))
        if r.random() < 0.7:
            for c in list(self.live):
                if r.random() < 0.8:
                    self.close(c)
            self.steps.append(("quiesce",))
        return Scenario(self.steps, self.variant, self.users, self.groups)


def scenario(r, **kw):
    # single=True profiles (small tables: refusals are derived from the error responses) need answerable request ids
    ANSWERABLE_ONLY[0] = bool(kw.get("single"))
    try:
        return Gen(r, **kw).build()
    finally:
        ANSWERABLE_ONLY[0] = False
