"""Daemon-level correspondence: scenario -> (simk script, model script), run both, compare.

A scenario is a list of high-level steps (tuples):
  ("connect", c, "raw"|"uds"|"ws", origin)          ws: CONNECT http + the complete upgrade request
  ("msg", c, value)                                  value: JSON AST (see J below) or bytes (raw text, may be unparsable)
  ("batch", [(c, value), ...])                       several messages harvested in ONE epoll batch, this order
  ("eof", c) | ("rst", c) | ("err", c)
  ("advance", ns)                                    timers expire (one batch, creation order)
  ("wmode", c, mode)                                 simk WMODE argument
  ("writable", c)
  ("quiesce",)
JSON AST: None | bool | int | float | str | bytes | list | ("obj", [(key, value), ...]).
"""
import json
import math
import os
import re
import struct

from . import common as C
from . import simk
from . import simlog as L

class _Null:
    """JSON null in canonical values (None means 'absent')"""
    def __repr__(self):
        return "JNULL"

    def __eq__(self, o):
        return isinstance(o, _Null)

    def __hash__(self):
        return 7


JNULL = _Null()
INT_MAX = 2147483647
INT_MIN = -2147483648


# --------------------------------------------------------------------------- JSON AST helpers

def obj(*pairs, **kw):
    ps = list(pairs) + list(kw.items())
    return ("obj", ps)


def is_obj(v):
    return isinstance(v, tuple) and len(v) == 2 and v[0] == "obj"


def jtext(v):
    """AST -> JSON text (bytes), duplicates and order preserved."""
    if isinstance(v, tuple) and len(v) == 2 and v[0] == "rawframe":
        return v[1]
    if v is None:
        return b"null"
    if v is True:
        return b"true"
    if v is False:
        return b"false"
    if isinstance(v, int):
        return str(v).encode()
    if isinstance(v, float):
        if math.isinf(v) or math.isnan(v):
            return b"null"
        return repr(v).encode()
    if isinstance(v, str):
        return json.dumps(v, ensure_ascii=False).encode("utf-8", "surrogateescape")
    if isinstance(v, bytes):
        return b'"' + v.replace(b"\\", b"\\\\").replace(b'"', b'\\"') + b'"'
    if isinstance(v, list):
        return b"[" + b",".join(jtext(x) for x in v) + b"]"
    if is_obj(v):
        return b"{" + b",".join(jtext(k) + b":" + jtext(x) for k, x in v[1]) + b"}"
    raise TypeError(v)


def sbytes(s):
    return s if isinstance(s, bytes) else s.encode("utf-8", "surrogateescape")


def vint_of(d):
    if d >= INT_MAX:
        return INT_MAX
    if d <= INT_MIN:
        return INT_MIN
    return int(d)


def jtokens(v):
    """AST -> line-protocol tokens of the Lean driver (what cJSON's parser yields for jtext(v))."""
    if isinstance(v, tuple) and len(v) == 2 and v[0] == "rawframe":
        return []                # not a message the model can be told about (only used in scenarios outside the model)
    if v is None:
        return ["n"]
    if v is True:
        return ["t"]
    if v is False:
        return ["f"]
    if isinstance(v, (int, float)):
        d = float(v)
        bits = struct.unpack(">Q", struct.pack(">d", d))[0]
        return ["d%x:%d" % (bits, vint_of(d))]
    if isinstance(v, (str, bytes)):
        return ["s" + C.hexs(sbytes(v))]
    if isinstance(v, list):
        out = ["a%d" % len(v)]
        for x in v:
            out += jtokens(x)
        return out
    if is_obj(v):
        out = ["o%d" % len(v[1])]
        for k, x in v[1]:
            out += [C.hexs(sbytes(k))] + jtokens(x)
        return out
    raise TypeError(v)


def parse_tokens(toks, i=0):
    """line-protocol tokens -> canonical value (numbers as float, strings as bytes, objects as ('obj', pairs))."""
    t = toks[i]
    if t == "n":
        return JNULL, i + 1
    if t == "t":
        return True, i + 1
    if t == "f":
        return False, i + 1
    if t[0] == "d":
        b, _ = t[1:].split(":")
        return struct.unpack(">d", struct.pack(">Q", int(b, 16)))[0], i + 1
    if t[0] == "s":
        return C.unhex(t[1:]), i + 1
    if t[0] == "a":
        n = int(t[1:])
        i += 1
        out = []
        for _ in range(n):
            v, i = parse_tokens(toks, i)
            out.append(v)
        return out, i
    if t[0] == "o":
        n = int(t[1:])
        i += 1
        out = []
        for _ in range(n):
            k = C.unhex(toks[i])
            v, i = parse_tokens(toks, i + 1)
            out.append((k, v))
        return ("obj", out), i
    raise ValueError(t)


def canon_text(b):
    """JSON text printed by the daemon -> canonical value (same form as parse_tokens)."""
    def conv(v):
        if v is None:
            return JNULL
        if isinstance(v, bool):
            return v
        if isinstance(v, (int, float)):
            return float(v)
        if isinstance(v, str):
            return v.encode("utf-8", "surrogateescape")
        if isinstance(v, list):
            return [conv(x) for x in v]
        if is_obj(v):
            return ("obj", [(k.encode("utf-8", "surrogateescape"), conv(x)) for k, x in v[1]])
        raise TypeError(v)
    return conv(json.loads(b.decode("utf-8", "surrogateescape"), object_pairs_hook=lambda ps: ("obj", ps)))


def canon_ast(v):
    """generator AST -> canonical value"""
    if v is None:
        return JNULL
    if isinstance(v, bool):
        return v
    if isinstance(v, (int, float)):
        return float(v)
    if isinstance(v, (str, bytes)):
        return sbytes(v)
    if isinstance(v, list):
        return [canon_ast(x) for x in v]
    if is_obj(v):
        return ("obj", [(sbytes(k), canon_ast(x)) for k, x in v[1]])
    raise TypeError(v)


def cget(v, key):
    """cJSON_GetObjectItem on a canonical value"""
    if is_obj(v):
        for k, x in v[1]:
            if k.lower() == key.lower():
                return x
    return None


def show(v):
    """canonical value -> short readable text"""
    if isinstance(v, bytes):
        return json.dumps(v.decode("utf-8", "replace"))
    if isinstance(v, float):
        return repr(int(v)) if v == int(v) and abs(v) < 1e15 else repr(v)
    if isinstance(v, list):
        return "[" + ",".join(show(x) for x in v) + "]"
    if is_obj(v):
        return "{" + ",".join(show(k) + ":" + show(x) for k, x in v[1]) + "}"
    if v == JNULL:
        return "null"
    return json.dumps(v)


def project(v, strict_errors=False):
    """Projection used for comparing messages: error objects are reduced to their code (texts and the
    data member are free to change), everything else is compared structurally."""
    if is_obj(v):
        err = None
        out = []
        for k, x in v[1]:
            if k == b"error" and is_obj(x) and not strict_errors and cget(x, b"code") is not None and cget(x, b"message") is not None \
                    and isinstance(cget(x, b"message"), bytes) and cget(x, b"message") in (
                        b"Invalid Request", b"Method not found", b"Invalid params", b"Internal error", b"Unknown error") \
                    and len(v[1]) == 2:
                out.append((k, ("obj", [(b"code", cget(x, b"code"))])))
            else:
                out.append((k, x))
        return ("obj", out)
    return v


# --------------------------------------------------------------------------- scenario -> scripts

def frame_for(transport, value):
    if isinstance(value, tuple) and len(value) == 2 and value[0] == "rawframe":
        return value[1]          # bytes put on the wire as they are (a frame with a header of the test's own making)
    text = value if isinstance(value, bytes) else jtext(value)
    if transport == "ws":
        return L.ws_frame(text)
    return L.raw_frame(text)


def chunks_for(rng, n):
    """a random partition description for n bytes (None = deliver at once)"""
    if rng is None or n < 2 or rng.random() < 0.5:
        return None
    parts = []
    left = n
    while left > 0:
        k = rng.choice([1, 2, 3, 4, 7, 16, 64, 500])
        k = min(k, left)
        parts.append(k)
        left -= k
    return ",".join(str(p) for p in parts)


class Scenario:
    def __init__(self, steps, variant="default", users=None, groups=None, name=""):
        self.steps = steps
        self.variant = variant
        self.users = users or []      # list of dict(name, password, auth(AST or None), readonly, admin)
        self.groups = groups or []
        self.name = name

    def to_json(self):
        def enc(v):
            if isinstance(v, bytes):
                return {"__bytes__": v.hex()}
            if isinstance(v, tuple):
                return {"__tuple__": [enc(x) for x in v]}
            if isinstance(v, list):
                return [enc(x) for x in v]
            if isinstance(v, dict):
                return {k: enc(x) for k, x in v.items()}
            return v
        return {"steps": enc(self.steps), "variant": self.variant, "users": enc(self.users), "groups": enc(self.groups), "name": self.name}

    @staticmethod
    def from_json(d):
        def dec(v):
            if isinstance(v, dict):
                if "__bytes__" in v:
                    return bytes.fromhex(v["__bytes__"])
                if "__tuple__" in v:
                    return tuple(dec(x) for x in v["__tuple__"])
                return {k: dec(x) for k, x in v.items()}
            if isinstance(v, list):
                return [dec(x) for x in v]
            return v
        return Scenario(dec(d["steps"]), d.get("variant", "default"), dec(d.get("users", [])), dec(d.get("groups", [])), d.get("name", ""))


ENDPOINT = {"raw": "jet", "uds": "uds", "ws": "http"}
LOCAL_ORIGINS = {"local6", "mapped6", "local4"}


def simk_script(sc, rng=None):
    """-> (script lines, step_map) where step_map[i] = index of the scenario step that simk line i belongs to"""
    lines, smap = [], []
    transport = {}
    for si, st in enumerate(sc.steps):
        k = st[0]

        def add(ln):
            lines.append(ln)
            smap.append(si)
        if k == "connect":
            _, c, tr, origin = st
            transport[c] = tr
            if tr == "ws":
                add("+CONNECT http %s" % origin)
                add("+IN c%d %s" % (c, L.hexs(L.ws_upgrade())))
                add("EPOLL lhttp:IN")
            else:
                add("CONNECT %s %s" % (ENDPOINT[tr], origin))
        elif k == "msg":
            _, c, value = st
            fr = frame_for(transport.get(c, "raw"), value)
            ch = chunks_for(rng, len(fr))
            add("IN c%d %s%s" % (c, L.hexs(fr), " " + ch if ch else ""))
        elif k == "batch":
            items = st[1]
            seen = []
            for c, value in items:
                add("+IN c%d %s" % (c, L.hexs(frame_for(transport.get(c, "raw"), value))))
                if c not in seen:
                    seen.append(c)
            add("EPOLL " + " ".join("c%d:IN" % c for c in seen))
        elif k in ("eof", "rst", "err"):
            add("%s c%d" % (k.upper(), st[1]))
        elif k == "reply":
            _, c, kk, key, value = st
            # kk: the k-th routed request; a list/tuple of ks = the same answer for all of them in ONE JSON array
            if isinstance(kk, (list, tuple)):
                add("REPLY c%d %s %s arr" % (c, ",".join(str(x) for x in kk), L.hexs(jtext(key) + b":" + jtext(value))))
            else:
                add("REPLY c%d %d %s" % (c, kk, L.hexs(jtext(key) + b":" + jtext(value))))
        elif k == "advance":
            add("ADVANCE %d" % st[1])
        elif k == "wmode":
            add("WMODE c%d %s" % (st[1], st[2]))
        elif k == "writable":
            add("WRITABLE c%d" % st[1])
        elif k == "quiesce":
            add("QUIESCE")
        elif k == "raw":           # literal simk line (directed scenarios)
            add(st[1])
        elif k == "connect_http":  # HTTP connection without sending anything yet
            transport[st[1]] = "ws"
            add("CONNECT http %s" % st[2])
        elif k == "partial":       # bytes that do not complete a message / line / frame
            add("IN c%d %s%s" % (st[1], L.hexs(st[2]), (" " + st[3]) if len(st) > 3 and st[3] else ""))
        elif k == "mixed":
            # several events harvested in ONE epoll batch, dispatched in this order (first appearance of each handle)
            handles = []
            for sub in st[1]:
                if sub[0] == "msg":
                    add("+IN c%d %s" % (sub[1], L.hexs(frame_for(transport.get(sub[1], "raw"), sub[2]))))
                    h = "c%d:IN" % sub[1]
                elif sub[0] == "reply":
                    add("+REPLY c%d %d %s" % (sub[1], sub[2], L.hexs(jtext(sub[3]) + b":" + jtext(sub[4]))))
                    h = "c%d:IN" % sub[1]
                elif sub[0] in ("eof", "rst"):
                    add("+%s c%d" % (sub[0].upper(), sub[1]))
                    h = "c%d:IN" % sub[1]
                elif sub[0] == "err":
                    add("+ERR c%d" % sub[1])
                    h = "c%d:ERR" % sub[1]
                elif sub[0] == "timer":
                    h = "t%d:IN" % sub[1]
                elif sub[0] == "advance":
                    add("+ADVANCE %d" % sub[1])
                    continue
                else:
                    raise ValueError(sub)
                if h not in handles:
                    handles.append(h)
            add("EPOLL " + " ".join(handles))
        else:
            raise ValueError(st)
    return lines, smap


class ImplTrace:
    """Per scenario step: what the implementation did, at message level."""

    def __init__(self, sc, log, smap):
        self.log = log
        self.smap = smap
        n = len(sc.steps)
        self.sends = [[] for _ in range(n)]      # (conn, ok, kind, payload)  kind: 'json' | 'http' | 'wsctl' | 'rawbad'
        self.closed = [[] for _ in range(n)]
        self.timers = [[] for _ in range(n)]     # ('arm', t, ns) | ('destroy', t)
        self.peers = [[] for _ in range(n)]      # (conn, addr)
        self.expired = [[] for _ in range(n)]
        self.replies = {}
        self.reply_texts = {}     # scenario step -> {(conn, k): text}
        for step, text in log.replies.items():
            if 0 <= step < len(smap):
                self.replies[smap[step]] = text
        for step, c, kk, text in log.reply_list:
            if 0 <= step < len(smap):
                self.reply_texts.setdefault(smap[step], {})[(c, kk)] = text
                self.replies.setdefault(("texts", smap[step]), {})[(c, kk)] = text
        self.transport = {}
        for st in sc.steps:
            if st[0] == "connect":
                self.transport[st[1]] = st[2]
            elif st[0] == "connect_http":
                self.transport[st[1]] = "ws"
        pending_create = {}
        self.ever_peer = set(ev[2] for ev in log.events if ev[1] == "PEER")
        for ev in log.events:
            step = ev[0]
            if step < 0 or step >= len(smap):
                # events after the script ended (TERM) are attributed to a virtual last step
                continue
            si = smap[step]
            kind = ev[1]
            if kind == "SEND":
                _, _, c, ret, data = ev
                tr = self.transport.get(c, "raw")
                if tr == "ws":
                    if data.startswith(b"HTTP/"):
                        self.sends[si].append((c, ret == 0, "http", data))
                    else:
                        _, frames, left = L.split_ws(data)
                        if len(frames) == 1 and not left and frames[0]["opcode"] == 1:
                            self.sends[si].append((c, ret == 0, "json", frames[0]["payload"]))
                        else:
                            self.sends[si].append((c, ret == 0, "wsctl", data))
                else:
                    msgs, left = L.split_raw(data)
                    if len(msgs) == 1 and not left:
                        self.sends[si].append((c, ret == 0, "json", msgs[0]))
                    else:
                        self.sends[si].append((c, ret == 0, "rawbad", data))
            elif kind == "CLOSE":
                self.closed[si].append(ev[2])
            elif kind == "TCREATE":
                pending_create[ev[2]] = si
            elif kind == "TSET":
                if ev[3] > 0:
                    self.timers[si].append(("arm", ev[2], ev[3]))
            elif kind == "TCLOSE":
                self.timers[si].append(("destroy", ev[2]))
            elif kind == "PEER":
                self.peers[si].append((ev[2], ev[3]))
            elif kind == "EXPIRE":
                self.expired[si].append(ev[2])


_MIN_BITS = {}


def min_timeout_bits():
    """IEEE-754 image of MIN_TIMEOUT_IN_S as the tree under test defines it (src/timer.c)."""
    if C.SRC not in _MIN_BITS:
        m = re.search(r"MIN_TIMEOUT_IN_S\s*=\s*([0-9.eE+-]+)\s*;", open(os.path.join(C.SRC, "timer.c")).read())
        if not m:
            raise C.BuildError("MIN_TIMEOUT_IN_S not found in timer.c")
        _MIN_BITS[C.SRC] = struct.unpack(">Q", struct.pack(">d", float(m.group(1))))[0]
    return _MIN_BITS[C.SRC]


def model_script(sc, tr, oracle_override=None):
    """Lean driver script from the scenario + the oracle values observed on the implementation.
    Returns (lines, opmap) with opmap[j] = scenario step index of the j-th model operation.
    oracle_override: {scenario step: send-result string} (see run_scenario)."""
    oracle_override = oracle_override or {}
    cfgv = C.config_values(sc.variant)
    lines = ["cfg localOnly=%d auth=%d maxMatchers=%s initFetch=%s defaultNs=%d minBits=%d name=%s version=%s" % (
        1 if cfgv.get("CONFIG_ALLOW_ADD_ONLY_FROM_LOCALHOST", "false") == "true" else 0,
        1 if sc.users else 0,
        cfgv["CONFIG_MAX_NUMBERS_OF_MATCHERS_IN_FETCH"], cfgv["CONFIG_INITIAL_FETCH_TABLE_SIZE"],
        int(float(cfgv["CONFIG_ROUTED_MESSAGES_TIMEOUT"]) * 1e9), min_timeout_bits(),
        C.hexs(cfgv["PROJECT_NAME"].encode()), C.hexs((cfgv["CJET_VERSION"] + cfgv["CJET_LAST"]).encode()))]
    for g in sc.groups:
        lines.append("group " + C.hexs(sbytes(g)))
    for u in sc.users:
        lines.append("user %s %s %d %d %s" % (C.hexs(sbytes(u["name"])), C.hexs(sbytes(u["password"])),
                                              1 if u.get("readonly") else 0, 1 if u.get("admin") else 0,
                                              " ".join(jtokens(u["auth"])) if u.get("auth") is not None else "-"))
    opmap = []
    for si, st in enumerate(sc.steps):
        k = st[0]
        jsends = [s for s in tr.sends[si] if s[2] == "json"]
        sends = oracle_override.get(si) or "".join("1" if s[1] else "0" for s in jsends) or "-"
        reasons = b" ".join(s[3] for s in jsends)
        ixf = 1 if b"element table full" in reasons else 0
        rtf = 1 if b"routing table full" in reasons else 0
        for c, addr in tr.peers[si]:
            trn = tr.transport.get(c, "raw")
            origin = next((s[3] for s in sc.steps if s[0] == "connect" and s[1] == c),
                          next((s[2] for s in sc.steps if s[0] == "connect_http" and s[1] == c), "local6"))
            local = 1 if origin in LOCAL_ORIGINS else 0
            if not any(s[0] in ("connect", "connect_http") and s[1] == c for s in sc.steps):
                # connection created by a literal harness line: take what the daemon's origin classification said
                pl = getattr(tr.log.conns.get(c), "peer_local", None)
                if pl is not None:
                    local = 1 if pl else 0
            lines.append("connect %d %d %d %s" % (c, 1 if trn == "ws" else 0, local, C.hexs(addr.encode())))
            opmap.append(si)
        if k == "msg" or k == "batch":
            items = [(st[1], st[2])] if k == "msg" else batch_order(st[1])
            if len(items) > 1:
                lines.append("oracle " + sends)
            maxmsg = int(cfgv["CONFIG_MAX_MESSAGE_SIZE"])
            for c, value in items:
                text = value if isinstance(value, bytes) else jtext(value)
                if len(text) > maxmsg:
                    # the reader refuses a length above the read buffer: the connection ends (C09), nothing is parsed
                    lines.append("disc %d %s" % (c, sends if len(items) == 1 else "="))
                    opmap.append(si)
                    continue
                if isinstance(value, bytes):
                    toks = parse_with_cjson_semantics(value)
                else:
                    toks = jtokens(value)
                lines.append("msg %d %s %d %d %s" % (c, sends if len(items) == 1 else "=", ixf, rtf, " ".join(toks) if toks else "!"))
                opmap.append(si)
        elif k == "reply":
            if si in tr.replies:
                toks = parse_with_cjson_semantics(tr.replies[si])
                lines.append("msg %d %s %d %d %s" % (st[1], sends, ixf, rtf, " ".join(toks) if toks else "!"))
                opmap.append(si)
        elif k in ("eof", "rst", "err"):
            lines.append("disc %d %s" % (st[1], sends))
            opmap.append(si)
        elif k == "advance":
            if len(tr.expired[si]) > 1:
                lines.append("oracle " + sends)
            for t in tr.expired[si]:
                lines.append("timer %d %s" % (t, sends if len(tr.expired[si]) == 1 else "="))
                opmap.append(si)
        elif k == "mixed":
            order = []
            for sub in st[1]:
                h = ("t", sub[1]) if sub[0] == "timer" else (("c", sub[1]) if sub[0] != "advance" else None)
                if h is not None and h not in order:
                    order.append(h)
            lines.append("oracle " + sends)
            maxmsg = int(cfgv["CONFIG_MAX_MESSAGE_SIZE"])
            for h in order:
                # on one connection the queued data is read before the end of stream is seen
                subs = [x for x in st[1] if x[0] not in ("advance", "eof", "rst", "err")] + [x for x in st[1] if x[0] in ("eof", "rst", "err")]
                for sub in subs:
                    if sub[0] == "advance":
                        continue
                    hh = ("t", sub[1]) if sub[0] == "timer" else ("c", sub[1])
                    if hh != h:
                        continue
                    if sub[0] == "timer":
                        lines.append("timer %d =" % sub[1])
                    elif sub[0] in ("eof", "rst", "err"):
                        lines.append("disc %d =" % sub[1])
                    elif sub[0] == "msg":
                        toks = parse_with_cjson_semantics(sub[2]) if isinstance(sub[2], bytes) else jtokens(sub[2])
                        lines.append("msg %d = %d %d %s" % (sub[1], ixf, rtf, " ".join(toks) if toks else "!"))
                    elif sub[0] == "reply":
                        text = tr.reply_texts.get(si, {}).get((sub[1], sub[2]))
                        if text is None:
                            continue
                        toks = parse_with_cjson_semantics(text)
                        lines.append("msg %d = %d %d %s" % (sub[1], ixf, rtf, " ".join(toks) if toks else "!"))
                    opmap.append(si)
        elif k == "quiesce":
            lines.append("dump")
            opmap.append(si)
    return lines, opmap


def batch_order(items):
    """messages of one epoll batch in the order the daemon processes them: connection by connection
    (first appearance), each connection's messages in their own order"""
    order = []
    for c, _ in items:
        if c not in order:
            order.append(c)
    return [(c, v) for cc in order for c, v in items if c == cc]


_CJSON_CACHE = {}


def cjson_tokens(text):
    """What cJSON_ParseWithLengthOpts(text, len, &end, 0) makes of a raw message, in the token encoding of the daemon model's
    driver, or None when it returns NULL: computed by the Lean model of the vendored cJSON.c (drv_cjson `parse`, itself tied to
    the real parser by the Cjson component check), so that lenient texts - trailing bytes, duplicate members, escapes, BOM -
    reach the daemon model with the semantics the daemon sees."""
    if text not in _CJSON_CACHE:
        try:
            outl = C.run_drv("cjson", "parse %s\n" % C.hexs(text))
            ans = outl[0].strip() if outl else "none"
        except Exception:
            ans = None
        if ans is None:
            # driver unavailable: strict reader (only exact JSON is then generated correctly)
            try:
                ans = " ".join(jtokens(json.loads(text.decode("utf-8", "surrogateescape"), object_pairs_hook=lambda ps: ("obj", ps))))
            except Exception:
                ans = "none"
        _CJSON_CACHE[text] = None if (ans == "none" or ans.startswith("oob")) else ans.split()
    return _CJSON_CACHE[text]


def parse_with_cjson_semantics(text):
    """Raw text messages: what cJSON makes of them (see cjson_tokens)."""
    return cjson_tokens(text)


def canon_request_text(b):
    """raw inbound text -> canonical value as the daemon's parser sees it; raises ValueError when the parser refuses it"""
    toks = cjson_tokens(b)
    if toks is None:
        raise ValueError("refused by the parser")
    return parse_tokens(toks)[0]


def run_model(lines):
    outs = C.run_drv("daemon", "\n".join(lines) + "\n")
    ops, cur = [], []
    for ln in outs:
        if ln == ".":
            ops.append(cur)
            cur = []
        else:
            cur.append(ln)
    return ops, cur


class ModelTrace:
    def __init__(self, sc, ops, opmap):
        n = len(sc.steps)
        self.sends = [[] for _ in range(n)]
        self.closed = [[] for _ in range(n)]
        self.timers = [[] for _ in range(n)]
        self.images = {}
        for j, obs in enumerate(ops):
            if j >= len(opmap):
                break
            si = opmap[j]
            if sc.steps[si][0] == "quiesce":
                self.images[si] = model_image(obs)
                continue
            for ln in obs:
                w = ln.split(" ")
                if w[0] == "send":
                    v, _ = parse_tokens(w[3:])
                    self.sends[si].append((int(w[1]), w[2] == "1", v))
                elif w[0] == "closed":
                    self.closed[si].append(int(w[1]))
                elif w[0] == "arm":
                    self.timers[si].append(("arm", int(w[1]), int(w[2])))
                elif w[0] == "tdestroy":
                    self.timers[si].append(("destroy", int(w[1])))


def jd_value(tok):
    """a ';'-joined token list of the driver's dump -> canonical value"""
    if tok == "~":
        return None
    return parse_tokens(tok.split(";"))[0]


def model_image(lines):
    """state image from the driver's dump lines"""
    peers, elems = [], {}
    for ln in lines:
        w = ln.split(" ")
        if w[0] == "peer":
            d = dict(x.split("=", 1) for x in w[2:])
            peers.append({"conn": int(w[1]), "name": d["name"], "user": d["user"], "local": d["local"], "groups": d["groups"],
                          "elements": [x for x in d["elements"].split(",") if x != ""] if d["elements"] != "" else [],
                          "fetches": [("J", jd_value(x)) for x in d["fetches"].split("|")] if d["fetches"] else [],
                          "routes": sorted(x for x in d["routes"].split(",") if x)})
        elif w[0] == "elem":
            d = dict(x.split("=", 1) for x in w[2:])
            slots = []
            if d["fetchers"]:
                for x in d["fetchers"].split("|"):
                    i, pc, fid = x.split(":", 2)
                    slots.append((int(i), int(pc), ("J", jd_value(fid))))
            elems[w[1]] = {"owner": int(d["owner"]), "value": ("J", jd_value(d["value"])) if d["value"] != "~" else None,
                           "fetchOnly": d["fetchOnly"], "timeout": int(d["timeout"]), "groups": d["groups"],
                           "tablesize": int(d["tablesize"]), "fetchers": slots}
    return {"peers": peers, "elems": elems}


def impl_image(snap, addr2conn):
    peers, elems = [], {}

    def jv(hx):
        return ("J", canon_text(C.unhex(hx)))
    for p in snap["peerlist"]:
        peers.append({"conn": addr2conn.get(p["addr"], -1), "name": p["name"], "user": p["user"], "local": p["local"], "groups": p["groups"],
                      "elements": [] if p["elements"] == "~" else p["elements"].split(","),
                      "fetches": [] if p["fetches"] == "~" else [jv(x) for x in p["fetches"].split(",")],
                      "routes": [] if p["routes"] == "~" else sorted(x.split(":", 1)[1] for x in p["routes"].split(","))})
    for e in snap["elems"]:
        slots = []
        if e["fetchers"] != "~":
            for x in e["fetchers"].split(","):
                i, addr, fid = x.split(":", 2)
                slots.append((int(i), addr2conn.get(addr, -1), jv(fid)))
        elems[C.hexs(e["path"])] = {"owner": addr2conn.get(e["owner"], -1), "value": jv(e["value"]) if e["value"] != "~" else None,
                                    "fetchOnly": "1" if int(e["flags"]) & 1 else "0", "timeout": int(e["timeout"]), "groups": e["groups"],
                                    "tablesize": int(e["tablesize"]), "fetchers": slots}
    return {"peers": peers, "elems": elems}


def compare_images(sc, itr, mtr):
    dis = []
    addr2conn = {}
    snaps = {}
    for sn in itr.log.snaps:
        if 0 <= sn["step"] < len(itr.smap) and sn.get("internals", True):
            snaps[itr.smap[sn["step"]]] = sn
    for si in range(len(sc.steps)):
        for c, addr in itr.peers[si]:
            addr2conn[addr] = c
        if sc.steps[si][0] != "quiesce" or si not in snaps or si not in mtr.images:
            continue
        a = impl_image(snaps[si], addr2conn)
        b = mtr.images[si]
        if a != b:
            what = "state image differs"
            detail = {}
            if a["peers"] != b["peers"]:
                detail["peers"] = {"impl": a["peers"], "model": b["peers"]}
            for kx in sorted(set(a["elems"]) | set(b["elems"])):
                if a["elems"].get(kx) != b["elems"].get(kx):
                    detail["elem " + kx] = {"impl": a["elems"].get(kx), "model": b["elems"].get(kx)}
            dis.append({"step": si, "what": what, "detail": repr(detail)[:3000]})
    return dis


def compare(sc, itr, mtr, strict_errors=False):
    """-> list of disagreements (dict) between implementation and model, per scenario step"""
    dis = []
    for si, st in enumerate(sc.steps):
        conns = sorted(set([s[0] for s in itr.sends[si] if s[2] == "json"] + [s[0] for s in mtr.sends[si]]))
        for c in conns:
            a = []
            for s in itr.sends[si]:
                if s[0] == c and s[2] == "json":
                    try:
                        a.append((s[1], project(canon_text(s[3]), strict_errors)))
                    except Exception:
                        a.append((s[1], ("unparsable", s[3])))
            b = [(s[1], project(s[2], strict_errors)) for s in mtr.sends[si] if s[0] == c]
            if st[0] in ("eof", "rst", "err", "advance", "mixed") or itr.closed[si] or mtr.closed[si]:
                # teardown/expiry order inside one table follows slot order, which the model abstracts
                a = sorted(a, key=repr)
                b = sorted(b, key=repr)
            if a != b:
                dis.append({"step": si, "what": "messages to c%d differ" % c, "scenario_step": repr(st)[:300],
                            "impl": [(ok, show(v) if not (isinstance(v, tuple) and v[0] == "unparsable") else repr(v)) for ok, v in a],
                            "model": [(ok, show(v)) for ok, v in b]})
        # connections that never became peers (HTTP exchanges that did not reach the upgrade) are not in the model
        impl_closed = [c for c in itr.closed[si] if c in itr.ever_peer]
        if sorted(impl_closed) != sorted(mtr.closed[si]):
            dis.append({"step": si, "what": "closed connections differ", "scenario_step": repr(st)[:300],
                        "impl": sorted(impl_closed), "model": sorted(mtr.closed[si])})
        if sorted(itr.timers[si]) != sorted(mtr.timers[si]):
            dis.append({"step": si, "what": "timer operations differ", "scenario_step": repr(st)[:300],
                        "impl": sorted(itr.timers[si]), "model": sorted(mtr.timers[si])})
        for s in itr.sends[si]:
            if s[2] == "rawbad":
                dis.append({"step": si, "what": "send on raw connection c%d is not one whole frame" % s[0], "impl": s[3].hex()})
    return dis


def run_scenario(binary, sc, rng=None, args=(), strict_errors=False):
    """Run implementation and model; returns dict(result, log, itr, mtr, disagreements, script)"""
    lines, smap = simk_script(sc, rng)
    res = simk.run(binary, lines, args=args)
    log = L.Log(res["lines"])
    itr = ImplTrace(sc, log, smap)
    mlines, opmap = model_script(sc, itr)
    ops, _ = run_model(mlines)
    mtr = ModelTrace(sc, ops, opmap)
    # The send results are consumed in the model's send order.  Inside a teardown / expiry step the daemon answers in table
    # slot order, the model in insertion order: when a send failed in such a step, hand every target its own results in the
    # order the model addresses the targets (which does not depend on the results: C11 notify_results_ignored) and run again.
    override = {}
    for si in range(len(sc.steps)):
        js = [x for x in itr.sends[si] if x[2] == "json"]
        if all(x[1] for x in js) or not mtr.sends[si]:
            continue
        it, mt = [x[0] for x in js], [x[0] for x in mtr.sends[si]]
        if it != mt and sorted(it) == sorted(mt):
            queues = {}
            for x in js:
                queues.setdefault(x[0], []).append(x[1])
            override[si] = "".join("1" if queues[c].pop(0) else "0" for c in mt)
    if override:
        mlines, opmap = model_script(sc, itr, override)
        ops, _ = run_model(mlines)
        mtr = ModelTrace(sc, ops, opmap)
    dis = compare(sc, itr, mtr, strict_errors) + compare_images(sc, itr, mtr)
    if sc.name.startswith("outside-model:"):
        # inputs outside the daemon model's domain (named in DESIGN.md: e.g. timeouts whose nanoseconds do not fit into 64
        # bits, where C's conversion is undefined and the model's saturates): judged by the property monitors on the
        # implementation only
        dis = []
    return {"res": res, "log": log, "itr": itr, "mtr": mtr, "dis": dis, "script": lines, "model_script": mlines, "smap": smap}
