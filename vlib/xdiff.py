"""Whole-daemon differential families that evaluate two properties directly on the implementation:

* segmentation (C09): the same session delivered under different read segmentations of every message must produce
  identical per-connection JSON output, closes and final element image;
* transparency (C12): the same JSON-RPC session over raw connections and over WebSocket connections must produce identical
  decoded JSON output (routed ids compared after replacing the address token by the connection number).
"""
import collections
from concurrent.futures import ProcessPoolExecutor

from . import common as C
from . import daemon as D
from . import dcheck
from . import gen_daemon as G
from . import monitors as M


def _view(sc, res):
    streams = M._streams(sc, res)
    closed = sorted(c for x in res["itr"].closed for c in x)
    snaps = res["log"].snaps
    img = sorted((e["path"], e["value"]) for e in snaps[-1]["elems"]) if snaps and snaps[-1].get("internals", True) else []
    return streams, closed, img


def _seg_one(idx):
    r = C.rng("xdiff", "seg", idx)
    sc = G.scenario(r, ws_share=0.4, batches=0.1, malformed=0.05)
    base = None
    for k in range(3):
        res = dcheck.run_one(sc, chunk_seed=None if k == 0 else idx * 7 + k)
        if res["res"]["sanitizer"] or res["log"].faults:
            return {"idx": idx, "fail": "sanitizer/hygiene: %s %s" % (res["res"]["sanitizer"], res["log"].faults[:1]), "sc": sc.to_json(), "k": k}
        v = _view(sc, res)
        if base is None:
            base = v
        elif v != base:
            what = "streams" if v[0] != base[0] else ("closed connections" if v[1] != base[1] else "final element image")
            return {"idx": idx, "fail": "segmentation %d changes the %s" % (k, what), "sc": sc.to_json(), "k": k,
                    "chunk_seed": idx * 7 + k}
    return {"idx": idx, "fail": None, "msgs": sum(len(x) for x in base[0].values())}


def _pipe_one(idx):
    """one connection sends a burst of requests: every request in its own readiness event, or the whole burst queued before
    the daemon looks (one event, the reader refills its buffer in the middle of frames): identical answers in identical order"""
    r = C.rng("xdiff", "pipe", idx)
    tr = r.choice(["raw", "ws", "ws", "uds"])
    n = r.randrange(8, 45) if idx % 3 else r.randrange(60, 110)
    msgs = []
    paths = []
    for i in range(n):
        # (every third session is a long burst of requests with long answers: more output than one write buffer holds is
        # produced within one run of the read loop)
        k = r.randrange(6) if idx % 3 else r.choice([2, 3, 3, 3, 4])
        pad = "x" * r.choice([0, 3, 17, 60, 120, 200, 260])
        if k == 0 or not paths:
            p_ = "p%d/%s" % (i, pad[:r.randrange(0, 40)])
            paths.append(p_)
            msgs.append(D.obj(method="add", params=D.obj(path=p_, value=pad), id=i))
        elif k == 1:
            msgs.append(D.obj(method="change", params=D.obj(path=r.choice(paths), value=[i, pad]), id=i))
        elif k == 2:
            msgs.append(D.obj(method="get", params=D.obj(path=D.obj(startsWith="p%d" % r.randrange(n))), id="g%d%s" % (i, pad[:50])))
        elif k == 3:
            msgs.append(D.obj(method="info", id="i%d%s" % (i, pad)))
        elif k == 4:
            msgs.append([D.obj(method="info", id=i), D.obj(method="config", params=D.obj(name="n%d" % i), id="c%d" % i)])
        else:
            msgs.append(D.obj(method="remove", params=D.obj(path=paths.pop(r.randrange(len(paths)))), id=i))
    head = [("connect", 0, tr, "unix" if tr == "uds" else "local6"), ("connect", 1, r.choice(["raw", "ws"]), "remote6"),
            ("msg", 1, D.obj(method="fetch", params=D.obj(id="watch"), id=1))]
    tail = [("quiesce",), ("eof", 0), ("quiesce",), ("eof", 1), ("quiesce",)]
    a_sc = D.Scenario(head + [("msg", 0, m) for m in msgs] + tail, name="pipe-%d-apart" % idx)
    b_sc = D.Scenario(head + [("batch", [(0, m) for m in msgs])] + tail, name="pipe-%d-burst" % idx)
    ra, rb = dcheck.run_one(a_sc), dcheck.run_one(b_sc)
    for res, sc_ in ((ra, a_sc), (rb, b_sc)):
        if res["res"]["sanitizer"] or res["log"].faults or res["dis"]:
            return {"idx": idx, "fail": "sanitizer/hygiene/model: %s %s %s" % (res["res"]["sanitizer"], res["log"].faults[:1], [d["what"] for d in res["dis"][:2]]),
                    "sc": sc_.to_json()}
    va, vb = _view(a_sc, ra), _view(b_sc, rb)
    if va != vb:
        what = "streams" if va[0] != vb[0] else ("closed connections" if va[1] != vb[1] else "final element image")
        return {"idx": idx, "fail": "a burst of %d requests on a %s connection is answered differently when it is queued at once (%s differ)" % (n, tr, what),
                "sc": b_sc.to_json()}
    return {"idx": idx, "fail": None, "msgs": sum(len(x) for x in va[0].values())}


def _prefix_one(idx):
    """raw transports: a frame whose length prefix is out of range, directly behind a good request: the connection ends there
    whether the bad prefix arrives in the same read as the request before it or in a later one, and what follows it is never
    executed"""
    import struct
    r = C.rng("xdiff", "prefix", idx)
    tr = r.choice(["raw", "uds"])
    good = D.obj(method="add", params=D.obj(path="before", value=1), id=1)
    after = D.jtext(D.obj(method="add", params=D.obj(path="after", value=2), id=2))
    plen = r.choice([0x01000000, 0x02000000, 0x7f000000, 0x80000000, 0xff000000, 0x00010000, 0x00000201, 513, 0x01000100]) + (len(after) if r.random() < 0.7 else 0)
    bad = ("rawframe", struct.pack(">I", plen & 0xffffffff) + after)
    head = [("connect", 0, tr, "unix" if tr == "uds" else "local6"), ("connect", 1, "raw", "remote6"),
            ("msg", 1, D.obj(method="fetch", params=D.obj(id="watch"), id=1))]
    tail = [("quiesce",), ("msg", 1, D.obj(method="get", params=D.obj(), id=2)), ("quiesce",), ("eof", 1), ("quiesce",)]
    third = D.obj(method="add", params=D.obj(path="third", value=3), id=3)
    a_sc = D.Scenario(head + [("msg", 0, good), ("msg", 0, bad), ("msg", 0, third)] + tail, name="outside-model:prefix-%d-apart" % idx)
    b_sc = D.Scenario(head + [("batch", [(0, good), (0, bad), (0, third)])] + tail, name="outside-model:prefix-%d-burst" % idx)
    ra, rb = dcheck.run_one(a_sc), dcheck.run_one(b_sc)
    for res, sc_ in ((ra, a_sc), (rb, b_sc)):
        if res["res"]["sanitizer"] or res["log"].faults:
            return {"idx": idx, "fail": "sanitizer/hygiene: %s %s" % (res["res"]["sanitizer"], res["log"].faults[:1]), "sc": sc_.to_json()}
    va, vb = _view(a_sc, ra), _view(b_sc, rb)
    if va != vb:
        what = "streams" if va[0] != vb[0] else ("closed connections" if va[1] != vb[1] else "final element image")
        return {"idx": idx, "fail": "a frame with length prefix 0x%08x behind a good request is treated differently when it arrives in the same read (%s differ)" % (plen & 0xffffffff, what),
                "sc": b_sc.to_json()}
    return {"idx": idx, "fail": None, "msgs": sum(len(x) for x in va[0].values())}


def _fin_one(idx):
    """the last request of every connection and its end of stream arrive in ONE readiness event, or in two: the request must
    be processed either way (same answers, same effect on the others)"""
    r = C.rng("xdiff", "fin", idx)
    sc = G.scenario(r, ws_share=0.3, batches=0.05, malformed=0.0, allow_close=False)
    base = dcheck.run_one(sc)
    closed = set(c for x in base["itr"].closed for c in x)
    conns = [st[1] for st in sc.steps if st[0] == "connect" and st[1] not in closed]
    if not conns:
        return {"idx": idx, "fail": None, "msgs": 0}
    last = {c: D.obj(method="add", params=D.obj(path="fin/%d" % c, value=c), id="fin%d" % c) for c in conns}
    a_steps = list(sc.steps) + [("quiesce",)]
    b_steps = list(sc.steps) + [("quiesce",)]
    for c in conns:
        a_steps += [("msg", c, last[c]), ("eof", c)]
        b_steps += [("mixed", [("msg", c, last[c]), ("eof", c)])]
    a_steps.append(("quiesce",))
    b_steps.append(("quiesce",))
    a_sc = D.Scenario(a_steps, sc.variant, sc.users, sc.groups, sc.name + "-fin-apart")
    b_sc = D.Scenario(b_steps, sc.variant, sc.users, sc.groups, sc.name + "-fin-together")
    ra, rb = dcheck.run_one(a_sc), dcheck.run_one(b_sc)
    for res in (ra, rb):
        if res["res"]["sanitizer"] or res["log"].faults:
            return {"idx": idx, "fail": "sanitizer/hygiene: %s %s" % (res["res"]["sanitizer"], res["log"].faults[:1]), "sc": b_sc.to_json()}
    va, vb = _view(a_sc, ra), _view(b_sc, rb)
    # the streams are compared as multisets per connection: a leaving peer's removal notifications may interleave differently
    # with the next peer's add when both arrive in one event; what must not differ is WHAT each connection receives in total
    def norm(v):
        return ({c: sorted(repr(x) for x in xs) for c, xs in v[0].items()}, v[1], v[2])
    if norm(va) != norm(vb):
        na, nb = norm(va), norm(vb)
        what = "messages received" if na[0] != nb[0] else ("closed connections" if na[1] != nb[1] else "final element image")
        return {"idx": idx, "fail": "a request followed by the end of its stream is treated differently when both arrive in one event (%s differ)" % what,
                "sc": b_sc.to_json()}
    return {"idx": idx, "fail": None, "msgs": sum(len(x) for x in va[0].values())}


def segmentation(ctx, out, n_quick=120, n_thorough=2000):
    n = n_thorough if ctx.thorough else n_quick
    dcheck.binary("default")
    tot = 0
    bad = []
    with ProcessPoolExecutor(C.NPROC) as ex:
        for r in ex.map(_seg_one, [ctx.seed * 1000003 + i for i in range(n)], chunksize=4):
            if r["fail"]:
                bad.append(r)
            else:
                tot += r["msgs"]
    for r in bad[:3]:
        out.violation("whole daemon: " + r["fail"], {"property": "C09", "scenario": r["sc"], "chunk_seed": r.get("chunk_seed"),
                                                     "what": r["fail"], "family": "same session, three segmentations of every message"})
    nf = max(20, n // 3)
    badf = []
    totf = 0
    with ProcessPoolExecutor(C.NPROC) as ex:
        for r in ex.map(_fin_one, [ctx.seed * 1000003 + i for i in range(nf)], chunksize=2):
            if r["fail"]:
                badf.append(r)
            else:
                totf += r["msgs"]
    for r in badf[:2]:
        out.violation("whole daemon: " + r["fail"], {"property": "C09", "scenario": r["sc"], "what": r["fail"],
                                                     "family": "last request and end of stream in one readiness event vs. two"})
    badp = []
    totp = 0
    with ProcessPoolExecutor(C.NPROC) as ex:
        for r in ex.map(_pipe_one, [ctx.seed * 1000003 + i for i in range(nf)], chunksize=2):
            if r["fail"]:
                badp.append(r)
            else:
                totp += r["msgs"]
    for r in badp[:2]:
        out.violation("whole daemon: " + r["fail"], {"property": "C09", "scenario": r["sc"], "what": r["fail"],
                                                     "family": "burst of requests in one readiness event vs. one event per request"})
    badx = []
    with ProcessPoolExecutor(C.NPROC) as ex:
        for r in ex.map(_prefix_one, [ctx.seed * 1000003 + i for i in range(nf)], chunksize=2):
            if r["fail"]:
                badx.append(r)
    for r in badx[:2]:
        out.violation("whole daemon: " + r["fail"], {"property": "C09", "scenario": r["sc"], "what": r["fail"],
                                                     "family": "out-of-range length prefix in the same read as the request before it vs. in a later read"})
    out.coverage["daemon_bad_prefix_sessions"] = nf
    out.coverage["daemon_bad_prefix_failures"] = len(badx)
    out.coverage["daemon_burst_sessions"] = nf
    out.coverage["daemon_burst_messages_compared"] = totp
    out.coverage["daemon_burst_failures"] = len(badp)
    out.coverage["daemon_fin_together_sessions"] = nf
    out.coverage["daemon_fin_together_failures"] = len(badf)
    out.coverage["daemon_segmentation_sessions"] = n
    out.coverage["daemon_segmentation_messages_compared"] = tot
    out.coverage["daemon_segmentation_failures"] = len(bad)


def _swap(sc, to):
    steps = []
    for st in sc.steps:
        if st[0] == "connect":
            steps.append(("connect", st[1], to if st[2] != "uds" else to, "local6" if st[3] == "unix" else st[3]))
        else:
            steps.append(st)
    return D.Scenario(steps, sc.variant, sc.users, sc.groups, sc.name + "-" + to)


def _tr_one(idx):
    r = C.rng("xdiff", "transparent", idx)
    sc = G.scenario(r, ws_share=0.0, batches=0.1, malformed=0.03)
    a_sc, b_sc = _swap(sc, "raw"), _swap(sc, "ws")
    ra, rb = dcheck.run_one(a_sc), dcheck.run_one(b_sc)
    for res in (ra, rb):
        if res["res"]["sanitizer"] or res["log"].faults:
            return {"idx": idx, "fail": "sanitizer/hygiene: %s %s" % (res["res"]["sanitizer"], res["log"].faults[:1]), "sc": sc.to_json()}
    va, vb = _view(a_sc, ra), _view(b_sc, rb)
    if va != vb:
        what = "JSON streams" if va[0] != vb[0] else ("closed connections" if va[1] != vb[1] else "final element image")
        detail = ""
        if va[0] != vb[0]:
            for c in sorted(set(va[0]) | set(vb[0])):
                if va[0].get(c) != vb[0].get(c):
                    la, lb = va[0].get(c, []), vb[0].get(c, [])
                    i = 0
                    while i < min(len(la), len(lb)) and la[i] == lb[i]:
                        i += 1
                    detail = "c%d message %d: raw %s / websocket %s" % (c, i, D.show(la[i])[:120] if i < len(la) else "nothing",
                                                                        D.show(lb[i])[:120] if i < len(lb) else "nothing")
                    break
        return {"idx": idx, "fail": "raw and WebSocket transports differ in the %s (%s)" % (what, detail), "sc": sc.to_json()}
    return {"idx": idx, "fail": None, "msgs": sum(len(x) for x in va[0].values())}


def transparency(ctx, out, n_quick=100, n_thorough=1500):
    n = n_thorough if ctx.thorough else n_quick
    dcheck.binary("default")
    tot = 0
    bad = []
    with ProcessPoolExecutor(C.NPROC) as ex:
        for r in ex.map(_tr_one, [ctx.seed * 1000003 + i for i in range(n)], chunksize=4):
            if r["fail"]:
                bad.append(r)
            else:
                tot += r["msgs"]
    for r in bad[:3]:
        out.violation("whole daemon: " + r["fail"], {"property": "C12", "scenario": r["sc"], "what": r["fail"],
                                                     "family": "same JSON-RPC session over raw and over WebSocket connections"})
    out.coverage["daemon_transparency_sessions"] = n
    out.coverage["daemon_transparency_messages_compared"] = tot
    out.coverage["daemon_transparency_failures"] = len(bad)
