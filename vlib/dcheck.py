"""Generic runner for the daemon-level properties: corpus + directed + seeded scenarios on the whole daemon
(simk) against the Lean daemon model, property monitors on the implementation's trace, shrinking, evidence."""
import collections
import glob
import json
import os
import time
from concurrent.futures import ProcessPoolExecutor

from . import common as C
from . import daemon as D
from . import gen_daemon as G
from . import simk

_bins = {}


def binary(variant):
    if variant not in _bins:
        _bins[variant] = simk.build(variant)
    return _bins[variant]


def passwd_file(sc):
    """credential file for the scenario (crypt hashes made with python's crypt module or a fixed DES table)"""
    if not sc.users:
        return None
    import hashlib
    import crypt as _crypt  # noqa: deprecated but present in 3.11
    users = {}
    for u in sc.users:
        # "stored": the literal content of the password field (locked account "*", empty field, bare salt ...): no password opens it
        ent = {"password": u["stored"] if "stored" in u else
               _crypt.crypt(u["password"] if isinstance(u["password"], str) else u["password"].decode(), "$6$verifsalt$")}
        if u.get("auth") is not None:
            ent["auth"] = json.loads(D.jtext(u["auth"]))
        if u.get("readonly"):
            ent["readonly"] = True
        if u.get("admin"):
            ent["admin"] = True
        users[u["name"]] = ent
    body = json.dumps({"users": users}, indent=1)
    d = os.path.join(C.WORK, "passwd")
    os.makedirs(d, exist_ok=True)
    p = os.path.join(d, hashlib.sha256(body.encode()).hexdigest()[:16] + ".json")
    if not os.path.exists(p):
        with open(p + ".tmp%d" % os.getpid(), "w") as f:
            f.write(body)
        os.replace(p + ".tmp%d" % os.getpid(), p)
    # the daemon may rewrite the file (passwd): give every run its own copy
    import shutil
    import tempfile
    fd, cp = tempfile.mkstemp(prefix="pw", dir=d)
    os.close(fd)
    shutil.copyfile(p, cp)
    return cp


def groups_in_file_order(sc):
    """the order in which load_passwd_data registers group names: users in file order, fetch/set/call arrays in turn"""
    out = []
    for u in sc.users:
        a = u.get("auth")
        if a is None:
            continue
        for key in ("fetchGroups", "setGroups", "callGroups"):
            for k2, v in a[1]:
                if k2.lower() == key.lower():
                    for g in v:
                        if isinstance(g, str) and g not in out:
                            out.append(g)
                    break
    return out


def run_one(sc, chunk_seed=None, strict_errors=False):
    b = binary(sc.variant)
    args = []
    pw = None
    if sc.users:
        sc.groups = groups_in_file_order(sc)
        pw = passwd_file(sc)
        args = ["-p", pw]
    try:
        res = D.run_scenario(b, sc, rng=C.rng("chunks", chunk_seed) if chunk_seed is not None else None, args=args,
                             strict_errors=strict_errors)
    finally:
        if pw:
            try:
                os.unlink(pw)
            except OSError:
                pass
    return res


def failures_of(prop, sc, res, monitor):
    """-> (property_failures, tie_failures): lists of short strings"""
    pf, tf = [], []
    log = res["log"]
    if res["res"]["sanitizer"]:
        pf.append("sanitizer: " + res["res"]["sanitizer"])
    for f in log.faults:
        pf.append("hygiene: " + f[:160])
    try:
        from . import monitors as _M
        pf += ["wire: " + f for f in _M.mon_wire(log)]
        pf += _M.mon_ws_upgrade(sc, res)
    except Exception as ex:
        tf.append("wire monitor raised %r" % (ex,))
    if monitor is not None:
        try:
            pf += monitor(sc, res)
        except Exception as ex:  # a monitor crash is a machinery problem, reported as such
            tf.append("monitor raised %r" % (ex,))
    for d in res["dis"]:
        tf.append("%s @step %d" % (d["what"], d["step"]))
    return pf, tf


def shrink(prop, sc, monitor, want_property, chunk_seed, budget=120):
    """greedy step deletion keeping the same class of failure"""
    steps = list(sc.steps)

    def fails(st):
        s2 = D.Scenario(st, sc.variant, sc.users, sc.groups, sc.name)
        try:
            r = run_one(s2, chunk_seed)
        except Exception:
            return False
        pf, tf = failures_of(prop, s2, r, monitor)
        return bool(pf) if want_property else bool(pf or tf)
    n = 0
    i = len(steps) - 1
    while i >= 0 and n < budget:
        if steps[i][0] != "connect":
            cand = steps[:i] + steps[i + 1:]
            n += 1
            if fails(cand):
                steps = cand
        i -= 1
    # drop connects that are no longer used
    used = set()
    for st in steps:
        if st[0] in ("msg", "eof", "rst", "err", "wmode", "writable", "reply"):
            used.add(st[1])
        elif st[0] == "batch":
            used.update(c for c, _ in st[1])
    return D.Scenario(steps, sc.variant, sc.users, sc.groups, sc.name + "(shrunk)")


def aftermath(sc):
    """The scenario followed by a broad exercise of whatever state it left behind (new peers add, fetch, get with every matcher
    kind, change, remove, wait for deadlines, leave).  Used when model and implementation merely DIFFER on a scenario: if the
    difference is a latent corruption, this is where it becomes a failure of the property with a concrete input."""
    from .daemon import obj
    n = 1 + max([st[1] for st in sc.steps if st[0] in ("connect", "connect_http")] + [0])
    a, b = n, n + 1
    paths = ["a", "a/b", "A/B", "m", "x/y/z", "zzprobe", ""]
    st = [("quiesce",), ("connect", a, "raw", "local6"), ("connect", b, "ws", "remote6"),
          ("msg", b, obj(method="fetch", params=obj(id="probe"), id=900))]
    for i, p_ in enumerate(paths):
        st.append(("msg", a, obj(method="add", params=(obj(path=p_, value=i) if i % 3 else obj(path=p_)), id=901 + i)))
    for i, rule in enumerate([obj(), obj(path=obj(equals="a/b", caseInsensitive=True)), obj(path=obj(startsWith="a")), obj(path=obj(contains="/", endsWith="b")),
                              obj(path=obj(containsAllOf=["a", "b"])), obj(path=obj(equalsNot="m"))]):
        st.append(("msg", b, obj(method="get", params=rule, id=920 + i)))
    for i, p_ in enumerate(paths):
        st.append(("msg", a, obj(method="change", params=obj(path=p_, value=[i]), id=930 + i)))
        st.append(("msg", b, obj(method=("set" if i % 3 else "call"), params=obj(path=p_, value=1), id=940 + i)))
    st += [("advance", 6 * 10 ** 9), ("quiesce",)]
    for i, p_ in enumerate(paths):
        st.append(("msg", a, obj(method="remove", params=obj(path=p_), id=950 + i)))
    live = []
    for s_ in sc.steps:
        if s_[0] in ("connect", "connect_http"):
            live.append(s_[1])
    st += [("msg", b, obj(method="unfetch", params=obj(id="probe"), id=960)), ("quiesce",)]
    st += [("eof", c) for c in (a, b)] + [("quiesce",)]
    return D.Scenario(list(sc.steps) + st, sc.variant, sc.users, sc.groups, sc.name + "+aftermath")


def _work(job):
    prop, idx, kind, payload, monitor_name, gen_kw = job
    from . import monitors as M
    monitor = getattr(M, monitor_name) if monitor_name else None
    if kind == "seeded":
        r = C.rng(prop, "scenario", idx)
        sc = G.scenario(r, **gen_kw)
        sc.name = "seeded-%d" % idx
    else:
        sc = D.Scenario.from_json(payload)
    try:
        res = run_one(sc, chunk_seed=idx)
    except Exception as ex:
        return {"idx": idx, "name": sc.name, "error": repr(ex), "sc": sc.to_json()}
    pf, tf = failures_of(prop, sc, res, monitor)
    h = collections.Counter()
    for st in sc.steps:
        h["step:" + st[0]] += 1
    nsend = sum(len(x) for x in res["itr"].sends)
    h["sends"] += nsend
    h["closes"] += sum(len(x) for x in res["itr"].closed)
    h["timer_ops"] += sum(len(x) for x in res["itr"].timers)
    h["send_failures"] += sum(1 for x in res["itr"].sends for s in x if not s[1])
    for x in res["itr"].sends:
        for s in x:
            if s[2] == "json" and b'"error"' in s[3]:
                m = s[3].find(b'"code":')
                h["error" + s[3][m + 7:m + 13].decode("ascii", "replace")] += 1
    sig = (tuple(sorted(k for k in h if k.startswith("error") or k.startswith("step:"))), nsend > 3)
    return {"idx": idx, "name": sc.name, "pf": pf, "tf": tf, "hist": dict(h), "nontrivial": nsend >= 3, "sig": repr(sig),
            "sc": sc.to_json() if (pf or tf) else None, "steps": len(sc.steps),
            "sample": [repr(s)[:160] for s in sc.steps[:6]] if idx % 50 == 0 else None,
            "dis": res["dis"][:3] if tf else None}


def corpus(prop):
    out = []
    for p in sorted(glob.glob(os.path.join(C.ROOT, "scenarios", "daemon", "*.json"))):
        d = json.load(open(p))
        if prop in d.get("properties", [prop]) or not d.get("properties"):
            d["name"] = os.path.basename(p)
            out.append(d)
    return out


def run_property(ctx, out, prop, monitor_name, n_quick, n_thorough, gen_kw, directed=(), known_match=None):
    """The standard flow.  `directed` = list of Scenario objects generated by the property module."""
    t0 = time.time()
    n = n_thorough if ctx.thorough else n_quick
    for v in set([gen_kw.get("variant", "default")] + [s.variant for s in directed]):
        binary(v)
    jobs = []
    k = 0
    for d in corpus(prop):
        jobs.append((prop, 100000 + k, "fixed", d, monitor_name, None))
        k += 1
    for sc in directed:
        jobs.append((prop, 200000 + k, "fixed", sc.to_json(), monitor_name, None))
        k += 1
    base = ctx.seed * 1000003
    for i in range(n):
        jobs.append((prop, base + i, "seeded", None, monitor_name, gen_kw))
    results = []
    with ProcessPoolExecutor(C.NPROC) as ex:
        for r in ex.map(_work, jobs, chunksize=4):
            results.append(r)
    hist = collections.Counter()
    sigs = set()
    nontriv = 0
    bad = []
    samples = []
    for r in results:
        if "error" in r:
            bad.append(r)
            continue
        hist.update(r["hist"])
        if r["nontrivial"]:
            nontriv += 1
            sigs.add(r["sig"] + str(r["steps"] // 5))
        if r["sample"]:
            samples.append({"name": r["name"], "first_steps": r["sample"]})
        if r["pf"] or r["tf"]:
            bad.append(r)
    from . import monitors as M
    monitor = getattr(M, monitor_name) if monitor_name else None
    reported = 0
    # scenarios on which the property itself fails are reported first (they carry the concrete failing input)
    bad.sort(key=lambda r: (0 if r.get("pf") else 1, r.get("steps", 0)))
    for r in bad[:4]:
        if "error" in r:
            out.violation("scenario could not be run: " + r["error"], {"property": prop, "broken": "correspondence machinery", "detail": r}, no_input=True)
            continue
        sc = D.Scenario.from_json(r["sc"])
        if not r["pf"]:
            # only the correspondence broke: search for an input on which the property itself fails, starting from this scenario
            try:
                ext = aftermath(sc)
                rx = run_one(ext, r["idx"])
                pfx, tfx = failures_of(prop, ext, rx, monitor)
                if pfx:
                    sc, r = ext, dict(r, pf=pfx, tf=tfx)
            except Exception:
                pass
        want_prop = bool(r["pf"])
        small = shrink(prop, sc, monitor, want_prop, r["idx"])
        res = run_one(small, r["idx"])
        pf, tf = failures_of(prop, small, res, monitor)
        if not (pf or tf):
            small, res, pf, tf = sc, run_one(sc, r["idx"]), r["pf"], r["tf"]
        if known_match is not None:
            km = known_match(small, pf, tf)
            if km:
                out.known_finding(km)
                continue
        replay = {"property": prop, "scenario": small.to_json(), "chunk_seed": r["idx"], "seed": ctx.seed,
                  "property_failures": pf, "correspondence_failures": tf,
                  "disagreements": res["dis"][:4], "simk_script": res["script"],
                  "impl_log_tail": res["res"]["lines"][-60:], "sanitizer_stderr": res["res"]["stderr"][-3000:] if res["res"]["sanitizer"] else ""}
        if pf:
            out.violation("property fails on the implementation: " + "; ".join(pf[:3]), replay)
        else:
            replay["broken"] = "correspondence Cjet.Daemon.Model <-> daemon (theorems of Cjet.Props.%s are about the model)" % prop
            out.violation("model and implementation differ: " + "; ".join(tf[:3]), replay, no_input=True)
        reported += 1
    out.coverage.update({
        "traces_validated_against_impl": len(results) - len([r for r in bad if "error" in r]),
        "evaluations": len(results),
        "distinct_nontrivial": len(sigs),
        "rule": "a scenario is non-trivial when the daemon sent >= 3 JSON messages in it; distinct = different (set of step kinds, set of error codes hit, length bucket) signature",
        "samples": samples[:6] or [{"name": results[0]["name"] if results else "none"}],
        "histogram": dict(hist.most_common(40)),
        "scenarios_with_failures": len(bad),
        "corpus_and_directed": k,
        "seeded": n,
        "tie_wall_s": round(time.time() - t0, 1),
    })
    return results


def run_more(ctx, out, prop, monitor_name, n_quick, n_thorough, gen_kw, tag, directed=()):
    """a second family (other variant / profile) merged into the same evidence"""
    class O2:
        pass
    cov0 = dict(out.coverage)
    run_property(ctx, out, prop, monitor_name, n_quick, n_thorough, gen_kw, directed)
    cov1 = out.coverage
    merged = dict(cov0)
    for k in ("traces_validated_against_impl", "evaluations", "distinct_nontrivial", "scenarios_with_failures", "corpus_and_directed", "seeded"):
        merged[k] = cov0.get(k, 0) + cov1.get(k, 0)
    merged["samples"] = (cov0.get("samples", []) + cov1.get("samples", []))[:8]
    merged["histogram_" + tag] = cov1.get("histogram", {})
    merged["tie_wall_s"] = round(cov0.get("tie_wall_s", 0) + cov1.get("tie_wall_s", 0), 1)
    out.coverage.clear()
    out.coverage.update(merged)
