"""Single-fault enumeration over EPOLL_CTL_ADD: for each scenario of the C15 corpus every registration the daemon performs
(connections, timers) is made to fail in turn (ENOSPC, as with the max_user_watches limit).  Judged on the real daemon: no
crash / sanitizer report / hygiene fault, the event loop keeps running, and once every connection is gone heap, peers,
descriptors and timers are at baseline (C07); new connections are still served afterwards."""
import collections
import time
from concurrent.futures import ProcessPoolExecutor

from . import common as C
from . import daemon as D
from . import dcheck
from . import simk
from . import simlog as L


def _one(job):
    idx, scj, nfail = job
    cmd = "EPCTLFAIL"
    if isinstance(nfail, tuple):
        cmd, nfail = nfail
    from .props import c15
    sc = D.Scenario.from_json(scj)
    tail, pconn = c15.probe_steps(sc)
    sc2 = D.Scenario(sc.steps + tail, sc.variant, sc.users, sc.groups, sc.name)
    lines, smap = D.simk_script(sc2)
    # the listeners' registrations happen before the script starts; the counter counts ADDs from the first script line on
    script = (["%s %d" % (cmd, nfail)] if nfail else []) + lines
    args, pw = [], None
    if sc.users:
        sc2.groups = dcheck.groups_in_file_order(sc2)
        pw = dcheck.passwd_file(sc2)
        args = ["-p", pw]
    try:
        res = simk.run(dcheck.binary(sc.variant), script, args=args)
    finally:
        if pw:
            import os
            try:
                os.unlink(pw)
            except OSError:
                pass
    log = L.Log(res["lines"])
    fails = []
    if res["sanitizer"]:
        fails.append("sanitizer: " + res["sanitizer"])
    fired = [l for l in res["lines"] if l.startswith("EPCTLFAILED")] or [l + " timer" for l in res["lines"] if l.startswith("TIMERFAILED")]
    for f in log.faults:
        # the close path removes the descriptor from the loop without knowing that its registration failed: the kernel answers
        # ENOENT, the descriptor is the daemon's own and open — not a hygiene matter
        if fired and "epoll_ctl DEL of unregistered " + fired[0].split()[1] in f:
            continue
        fails.append("hygiene: " + f[:140])
    adds = sum(1 for l in res["lines"] if l.startswith("EPCTL add") or l.startswith("EPCTLFAILED"))
    timers = sum(1 for l in res["lines"] if (l.startswith("TIMER ") and l.endswith(" create")) or l.startswith("TIMERFAILED"))
    if log.runio_ret != 0:
        fails.append("event loop ended (run_io returned %s)" % log.runio_ret)
    fin = log.final
    heap_ok = (lambda h: True) if sc.users else (lambda h: h == 0)
    if fin is not None and (fin["peers"] != 0 or not heap_ok(fin["heap"]) or fin["fds"] or fin["armed"]):
        fails.append("not at baseline after shutdown: peers=%d heap=%d fds=%s armed=%s" % (fin["peers"], fin["heap"], fin["fds"], fin["armed"]))
    if log.exit_heap not in (0, None):
        fails.append("accounted heap at exit is %d" % log.exit_heap)
    pc = log.conns.get(pconn)
    if (pc is None or b'"alive"' not in pc.out) and not (fired and fired[0].split()[1] in ("c%d" % pconn, "c%d" % (pconn - 1))):
        fails.append("the daemon no longer serves new connections after the failed registration")
    return {"idx": idx, "name": sc.name, "nfail": nfail, "fails": fails, "fired": fired[0].split()[1] if fired else None, "adds": adds, "timers": timers,
            "script": script if fails else None, "stderr": res["stderr"][-2000:] if fails else ""}


def run_epctl_enum(ctx, out, prop="C07"):
    from .props import c15
    t0 = time.time()
    scs = c15.corpus()
    for v in set(s.variant for s in scs):
        dcheck.binary(v)
    with ProcessPoolExecutor(C.NPROC) as ex:
        base = list(ex.map(_one, [(i, sc.to_json(), 0) for i, sc in enumerate(scs)]))
    jobs = []
    for i, (sc, b) in enumerate(zip(scs, base)):
        for n in range(1, b["adds"] + 2):
            jobs.append((i, sc.to_json(), n))
        for n in range(1, b["timers"] + 2):          # and every creation of a timer descriptor (EMFILE)
            jobs.append((i, sc.to_json(), ("TIMERFAIL", n)))
    bad = [r for r in base if r["fails"]]
    kinds = collections.Counter()
    fired = 0
    with ProcessPoolExecutor(C.NPROC) as ex:
        for r in ex.map(_one, jobs, chunksize=4):
            if r["fired"]:
                fired += 1
                kinds["timer" if r["fired"].startswith("t") else "connection"] += 1
            if r["fails"]:
                bad.append(r)
    for r in bad[:3]:
        out.violation("failed registration / timer creation %s (%s) in scenario %s: %s" % (r["nfail"], r["fired"], r["name"], "; ".join(r["fails"][:3])),
                      {"property": prop, "scenario": r["name"], "epoll_ctl_add_failure_index": r["nfail"], "failed_registration_of": r["fired"],
                       "simk_script": r["script"], "failures": r["fails"], "sanitizer_stderr": r["stderr"]})
    out.coverage.update({"epctl_enum_runs": len(jobs) + len(base), "epctl_enum_faults_fired": fired, "epctl_enum_failed_kinds": dict(kinds),
                         "epctl_enum_failing_runs": len(bad), "epctl_enum_wall_s": round(time.time() - t0, 1)})
