"""Property monitors: evaluate a property directly on the IMPLEMENTATION's trace of one scenario
(independent of the Lean model).  Each returns a list of failure strings (empty = property held)."""
import json

from . import daemon as D
from .daemon import cget, is_obj, canon_ast, canon_text, show

# --------------------------------------------------------------------------- common views


def is_id(v):
    return (isinstance(v, bytes) or isinstance(v, float)) and not isinstance(v, bool)


def is_response(v):
    return is_obj(v) and cget(v, b"method") is None and (cget(v, b"result") is not None or cget(v, b"error") is not None
                                                            or any(k.lower() in (b"result", b"error") for k, _ in v[1]))


def has_member(v, key):
    return is_obj(v) and any(k.lower() == key for k, _ in v[1])


def step_requests(st, replies=None, si=None):
    """(conn, canonical request value | None) for every inbound message of a scenario step, in processing order"""
    k = st[0]
    items = []
    if k == "msg":
        items = [(st[1], st[2])]
    elif k == "batch":
        # simk delivers per connection in first-appearance order
        order = []
        for c, _ in st[1]:
            if c not in order:
                order.append(c)
        for c in order:
            items += [(cc, v) for cc, v in st[1] if cc == c]
    elif k == "reply" and replies is not None and si in replies:
        items = [(st[1], replies[si])]
    out = []
    for c, v in items:
        if isinstance(v, bytes):
            try:
                out.append((c, canon_text(v)))
            except Exception:
                out.append((c, None))
        else:
            out.append((c, canon_ast(v)))
    return out


def flatten_requests(v):
    """top-level message -> (list of request objects in order, ok) following parse_message: an array is processed member by
    member until the first non-object"""
    if is_obj(v):
        return [v], True
    if isinstance(v, list):
        out = []
        for m in v:
            if not is_obj(m):
                return out, False
            out.append(m)
        return out, True
    return [], False


def step_sends(res, si):
    out = []
    for s in res["itr"].sends[si]:
        if s[2] == "json":
            try:
                out.append((s[0], s[1], canon_text(s[3])))
            except Exception:
                out.append((s[0], s[1], ("unparsable", s[3])))
    return out


# --------------------------------------------------------------------------- C02

def mon_c02(sc, res):
    fails = []
    itr = res["itr"]
    outstanding = {}      # conn -> list of ids of routed requests awaiting their final answer
    dead = set()
    for si, st in enumerate(sc.steps):
        sends = step_sends(res, si)
        closed = set(itr.closed[si])
        reqs = [(c, v) for c, v in step_requests(st, itr.replies, si) if c not in dead]
        by_conn = {}
        for c, v in reqs:
            by_conn.setdefault(c, []).append(v)
        resp_to = {}
        for d, ok, v in sends:
            if isinstance(v, tuple) and v and v[0] == "unparsable":
                fails.append("step %d: unparsable JSON sent to c%d" % (si, d))
                continue
            if is_response(v):
                if has_member(v, b"result") == has_member(v, b"error"):
                    fails.append("step %d: response to c%d has not exactly one of result/error: %s" % (si, d, show(v)[:120]))
                resp_to.setdefault(d, []).append(v)
        for c, msgs in by_conn.items():
            expected = []
            for m in msgs:
                if m is None:
                    break
                rs, _ = flatten_requests(m)
                for r in rs:
                    method = cget(r, b"method")
                    rid = cget(r, b"id")
                    if method is not None:
                        if is_id(rid):
                            routed_kind = isinstance(method, bytes) and method in (b"set", b"call")
                            expected.append((rid, "optional" if routed_kind else "mandatory"))
                    else:
                        if not has_member(r, b"result") and not has_member(r, b"error") and is_id(rid):
                            expected.append((rid, "mandatory"))
            got = resp_to.pop(c, [])
            closed_now = c in closed
            pend = list(outstanding.get(c, []))

            def match(gi, ei, pend):
                """can responses got[gi:] be explained by expected[ei:] (in order; optional ones may stay pending) plus pending finals?"""
                if gi == len(got):
                    if closed_now:
                        return pend, ei
                    if all(e[1] == "optional" for e in expected[ei:]):
                        return pend + [e[0] for e in expected[ei:]], len(expected)
                    return None
                vid = cget(got[gi], b"id")
                # next expected entries: skip optionals (they become pending) up to the first candidate with this id
                skipped = []
                j = ei
                while j < len(expected):
                    if expected[j][0] == vid:
                        r = match(gi + 1, j + 1, pend + skipped)
                        if r is not None:
                            return r
                    if expected[j][1] == "mandatory":
                        break
                    skipped.append(expected[j][0])
                    j += 1
                if vid in pend:
                    p2 = list(pend)
                    p2.remove(vid)
                    return match(gi + 1, ei, p2)
                return None
            r = match(0, 0, pend)
            if r is None:
                fails.append("step %d: responses to c%d %s cannot be matched one-to-one with its requests %s (+pending %s)" % (
                    si, c, [show(cget(v, b"id")) for v in got], [(show(e[0]), e[1]) for e in expected], [show(x) for x in pend]))
                outstanding[c] = pend
            else:
                outstanding[c] = r[0]
        for d, got in resp_to.items():
            for v in got:
                vid = cget(v, b"id")
                if vid in outstanding.get(d, []):
                    outstanding[d].remove(vid)
                else:
                    fails.append("step %d: c%d received response id %s although it has no such request pending" % (si, d, show(vid)))
        for c in closed:
            outstanding.pop(c, None)
            dead.add(c)
    return fails[:6]


# --------------------------------------------------------------------------- C07 (baseline / hygiene)

def mon_c07(sc, res):
    fails = []
    log = res["log"]
    for sn in log.snaps:
        if not sn["fds"] or all(not f.startswith("c") for f in sn["fds"]):
            # no client connection is open
            if sn["peers"] != 0 or sn["heap"] != 0 or sn["fds"] or sn["armed"]:
                fails.append("not at baseline with all connections gone (script step %d): peers=%d heap=%d fds=%s armed=%s" % (
                    sn["step"], sn["peers"], sn["heap"], sn["fds"], sn["armed"]))
    fin = log.final
    if fin is None or log.runio_ret is None:
        fails.append("daemon did not reach a clean exit")
    else:
        if log.runio_ret != 0:
            fails.append("run_io returned %d" % log.runio_ret)
        if fin["peers"] != 0 or fin["heap"] != 0 or fin["fds"] or fin["armed"] or (log.exit_heap or 0) != 0:
            fails.append("after SIGTERM: peers=%d heap=%d fds=%s armed=%s exit_heap=%s" % (
                fin["peers"], fin["heap"], fin["fds"], fin["armed"], log.exit_heap))
    return fails[:6]


# --------------------------------------------------------------------------- C04 (reference map)

def wellformed_add(params, local_only, is_local):
    if local_only and not is_local:
        return False
    if not is_obj(params):
        return False
    p = cget(params, b"path")
    if not isinstance(p, bytes):
        return False
    fo = cget(params, b"fetchOnly")
    if fo is not None and not isinstance(fo, bool):
        return False
    t = cget(params, b"timeout")
    if t is not None and (isinstance(t, bool) or not isinstance(t, float) or t < 0.001):
        return False
    a = cget(params, b"access")
    if a is not None:
        has_value = cget(params, b"value") is not None
        for key in ([b"fetchGroups", b"setGroups"] if has_value else [b"fetchGroups", b"callGroups"]):
            g = cget(a, key)
            if g is not None and not isinstance(g, list):
                return False
    return True


def mon_c04(sc, res):
    """Reference finite map; requires requests whose ids identify their responses (string/number ids, unique per step+conn)."""
    fails = []
    itr = res["itr"]
    R = {}   # path -> [owner, kind, value]
    cfgv = D.C.config_values(sc.variant)
    local_only = cfgv.get("CONFIG_ALLOW_ADD_ONLY_FROM_LOCALHOST", "false") == "true"
    origin = {st[1]: st[3] for st in sc.steps if st[0] == "connect"}
    addr2conn = {}
    snaps = {}
    for sn in res["log"].snaps:
        if 0 <= sn["step"] < len(itr.smap):
            snaps[itr.smap[sn["step"]]] = sn
    uncertain = False
    dead = set()
    unknown = set()     # paths whose state is not known until the next snapshot
    for si, st in enumerate(sc.steps):
        for c, addr in itr.peers[si]:
            addr2conn[addr] = c
        sends = step_sends(res, si)
        closed = set(itr.closed[si])
        for c, top in step_requests(st, itr.replies, si):
            if top is None or c in dead:
                continue
            rs, _ = flatten_requests(top)
            resp = [v for d, ok, v in sends if d == c and is_response(v)]
            for r in rs:
                method = cget(r, b"method")
                rid = cget(r, b"id")
                params = cget(r, b"params")
                if not isinstance(method, bytes) or method not in (b"add", b"remove", b"change"):
                    continue
                path = cget(params, b"path") if is_obj(params) else None
                mine = [v for v in resp if cget(v, b"id") == rid] if is_id(rid) else []
                if len(mine) != 1 or (isinstance(path, bytes) and path in unknown) or uncertain:
                    # outcome not observable (no id / duplicated id / connection dropped): resynchronise at the next snapshot
                    if isinstance(path, bytes):
                        uncertain = True
                        unknown.add(path)
                    continue
                ok = has_member(mine[0], b"result")
                code = cget(cget(mine[0], b"error"), b"code") if not ok else None
                if method == b"add":
                    wf = wellformed_add(params, local_only, origin.get(c) in D.LOCAL_ORIGINS or origin.get(c) == "unix")
                    if wf and path not in R:
                        if ok:
                            v = cget(params, b"value")
                            R[path] = [c, "state" if v is not None else "method", v]
                        elif code != -32603.0:
                            fails.append("step %d: well-formed add of free path %s by c%d refused with code %s" % (si, show(path), c, code))
                    elif ok:
                        fails.append("step %d: add of %s by c%d succeeded although %s" % (
                            si, show(path) if isinstance(path, bytes) else path, c, "the path exists" if wf else "the request is malformed"))
                elif method == b"remove":
                    should = isinstance(path, bytes) and path in R and R[path][0] == c
                    if ok != should:
                        fails.append("step %d: remove of %s by c%d %s" % (si, show(path) if isinstance(path, bytes) else path, c,
                                                                            "succeeded for a non-owner/absent path" if ok else "was refused for its owner"))
                    if ok and isinstance(path, bytes):
                        R.pop(path, None)
                elif method == b"change":
                    v = cget(params, b"value") if is_obj(params) else None
                    should = isinstance(path, bytes) and path in R and R[path][0] == c and R[path][1] == "state" and has_member(params, b"value")
                    if ok != should:
                        fails.append("step %d: change of %s by c%d %s" % (si, show(path) if isinstance(path, bytes) else path, c,
                                                                            "accepted although not allowed" if ok else "refused although allowed"))
                    if ok and isinstance(path, bytes) and path in R:
                        R[path][2] = v
        for c in closed:
            dead.add(c)
            for p in [p for p, e in R.items() if e[0] == c]:
                del R[p]
        if st[0] == "quiesce" and si in snaps:
            sn = snaps[si]
            img = {}
            for e in sn["elems"]:
                if e["path"] in img:
                    fails.append("step %d: path %s names two elements" % (si, show(e["path"])))
                img[e["path"]] = [addr2conn.get(e["owner"], -1), "state" if e["value"] != "~" else "method",
                                  canon_text(D.C.unhex(e["value"])) if e["value"] != "~" else None]
            if uncertain:
                R = {p: list(v) for p, v in img.items()}
                uncertain = False
                unknown = set()
            elif img != R:
                diff = {show(p): (img.get(p), R.get(p)) for p in set(img) | set(R) if img.get(p) != R.get(p)}
                fails.append("step %d: element set differs from the reference map (daemon, reference): %s" % (si, repr(diff)[:300]))
                R = {p: list(v) for p, v in img.items()}
    return fails[:6]
