"""Property monitors: evaluate a property directly on the IMPLEMENTATION's trace of one scenario
(independent of the Lean model).  Each returns a list of failure strings (empty = property held)."""
import json

from . import daemon as D
from .daemon import cget, is_obj, canon_ast, canon_text, show

# --------------------------------------------------------------------------- common views


def is_id(v):
    return (isinstance(v, bytes) or isinstance(v, float)) and not isinstance(v, bool)


def is_response(v):
    return is_obj(v) and cget(v, b"method") is None and (cget(v, b"result") is not None or cget(v, b"error") is not None
                                                            or any(k.lower() in (b"result", b"error") for k, _ in v[1]))


def has_member(v, key):
    return is_obj(v) and any(k.lower() == key for k, _ in v[1])


def has_exact(v, key):
    """what the daemon SENDS is judged by the exact member names of JSON-RPC (what it ACCEPTS follows cJSON's case-insensitive lookup)"""
    return is_obj(v) and sum(1 for k, _ in v[1] if k == key) == 1


def step_requests(st, replies=None, si=None):
    """(conn, canonical request value | None) for every inbound message of a scenario step, in processing order"""
    k = st[0]
    items = []
    if k == "msg":
        items = [(st[1], st[2])]
    elif k == "batch":
        # simk delivers per connection in first-appearance order
        order = []
        for c, _ in st[1]:
            if c not in order:
                order.append(c)
        for c in order:
            items += [(cc, v) for cc, v in st[1] if cc == c]
    elif k == "reply" and replies is not None and si in replies:
        items = [(st[1], replies[si])]
    elif k == "mixed":
        order = []
        for sub in st[1]:
            if sub[0] in ("msg", "reply") and sub[1] not in order:
                order.append(sub[1])
        for c in order:
            for sub in st[1]:
                if sub[0] == "msg" and sub[1] == c:
                    items.append((c, sub[2]))
                elif sub[0] == "reply" and sub[1] == c and isinstance(replies, dict) and replies.get(("texts", si), {}).get((c, sub[2])) is not None:
                    items.append((c, replies[("texts", si)][(c, sub[2])]))
    out = []
    for c, v in items:
        if isinstance(v, bytes):
            try:
                out.append((c, D.canon_request_text(v)))
            except Exception:
                out.append((c, None))
        else:
            out.append((c, canon_ast(v)))
    return out


def flatten_requests(v):
    """top-level message -> (list of request objects in order, ok) following parse_message: an array is processed member by
    member until the first non-object"""
    if is_obj(v):
        return [v], True
    if isinstance(v, list):
        out = []
        for m in v:
            if not is_obj(m):
                return out, False
            out.append(m)
        return out, True
    return [], False


def dup_ids(reqs):
    """(conn, repr(id)) pairs that occur in more than one request object of the step: responses cannot be attributed"""
    import collections as _c
    cnt = _c.Counter()
    for c, top in reqs:
        if top is None:
            continue
        for r in flatten_requests(top)[0]:
            rid = cget(r, b"id")
            if is_id(rid):
                cnt[(c, repr(rid))] += 1
    return set(k for k, n in cnt.items() if n > 1)


def pick_routed(cands, v, sends, dups=()):
    """index of the set/call request (conn, request) that the routed message v belongs to, or None"""
    meth, rid = cget(v, b"method"), cget(v, b"id")
    scored = []
    for i, (c, r) in enumerate(cands):
        params = cget(r, b"params")
        if cget(params, b"path") != meth:
            continue
        isset = cget(r, b"method") == b"set"
        want = ("obj", [(b"value", cget(params, b"value"))]) if isset else (cget(params, b"args") if cget(params, b"args") is not None else ("obj", []))
        if cget(v, b"params") != want:
            continue
        oid = cget(r, b"id")
        if oid is not None and not is_id(oid):
            continue      # an id of another JSON type is refused, never routed
        prefix = (oid + b"_") if isinstance(oid, bytes) else (b"(null)_" if is_id(oid) else b"")
        # (an error response carrying the request's id says "refused" only when no other request of the step uses that id)
        refused = is_id(oid) and (c, repr(oid)) not in dups and any(d2 == c and is_response(v2) and has_member(v2, b"error") and cget(v2, b"id") == oid
                                     for d2, ok2, v2 in sends if not (isinstance(v2, tuple) and v2 and v2[0] == "unparsable"))
        scored.append((0 if (rid.startswith(prefix) and not refused) else (1 if not refused else 2), i))
    return sorted(scored)[0][1] if scored else None


def step_sends(res, si):
    out = []
    for s in res["itr"].sends[si]:
        if s[2] == "json":
            try:
                out.append((s[0], s[1], canon_text(s[3])))
            except Exception:
                out.append((s[0], s[1], ("unparsable", s[3])))
    return out


# --------------------------------------------------------------------------- C02

def mon_c02(sc, res):
    fails = []
    itr = res["itr"]
    outstanding = {}      # conn -> list of ids of routed requests awaiting their final answer
    dead = set()
    for si, st in enumerate(sc.steps):
        sends = step_sends(res, si)
        closed = set(itr.closed[si])
        reqs = [(c, v) for c, v in step_requests(st, itr.replies, si) if c not in dead]
        by_conn = {}
        for c, v in reqs:
            by_conn.setdefault(c, []).append(v)
        resp_to = {}
        for d, ok, v in sends:
            if isinstance(v, tuple) and v and v[0] == "unparsable":
                fails.append("step %d: unparsable JSON sent to c%d" % (si, d))
                continue
            if is_response(v):
                if has_member(v, b"result") == has_member(v, b"error") or has_exact(v, b"result") == has_exact(v, b"error"):
                    fails.append("step %d: response to c%d has not exactly one of result/error: %s" % (si, d, show(v)[:120]))
                resp_to.setdefault(d, []).append(v)
        for c, msgs in by_conn.items():
            expected = []
            for m in msgs:
                if m is None:
                    break
                rs, _ = flatten_requests(m)
                for r in rs:
                    method = cget(r, b"method")
                    rid = cget(r, b"id")
                    if method is not None:
                        if is_id(rid):
                            routed_kind = isinstance(method, bytes) and method in (b"set", b"call")
                            expected.append((rid, "optional" if routed_kind else "mandatory"))
                    else:
                        if not has_member(r, b"result") and not has_member(r, b"error") and is_id(rid):
                            expected.append((rid, "mandatory"))
            got = resp_to.pop(c, [])
            closed_now = c in closed
            pend = list(outstanding.get(c, []))

            def match(gi, ei, pend):
                """can responses got[gi:] be explained by expected[ei:] (in order; optional ones may stay pending) plus pending finals?"""
                if gi == len(got):
                    if closed_now:
                        return pend, ei
                    if all(e[1] == "optional" for e in expected[ei:]):
                        return pend + [e[0] for e in expected[ei:]], len(expected)
                    return None
                vid = cget(got[gi], b"id")
                # next expected entries: skip optionals (they become pending) up to the first candidate with this id
                skipped = []
                j = ei
                while j < len(expected):
                    if expected[j][0] == vid:
                        r = match(gi + 1, j + 1, pend + skipped)
                        if r is not None:
                            return r
                    if expected[j][1] == "mandatory":
                        break
                    skipped.append(expected[j][0])
                    j += 1
                if vid in pend:
                    p2 = list(pend)
                    p2.remove(vid)
                    return match(gi + 1, ei, p2)
                return None
            r = match(0, 0, pend)
            if r is None:
                fails.append("step %d: responses to c%d %s cannot be matched one-to-one with its requests %s (+pending %s)" % (
                    si, c, [show(cget(v, b"id")) for v in got], [(show(e[0]), e[1]) for e in expected], [show(x) for x in pend]))
                outstanding[c] = pend
            else:
                outstanding[c] = r[0]
        for d, got in resp_to.items():
            for v in got:
                vid = cget(v, b"id")
                if vid in outstanding.get(d, []):
                    outstanding[d].remove(vid)
                else:
                    fails.append("step %d: c%d received response id %s although it has no such request pending" % (si, d, show(vid)))
        for c in closed:
            outstanding.pop(c, None)
            dead.add(c)
    return fails[:6]


# --------------------------------------------------------------------------- C07 (baseline / hygiene)

def mon_c07(sc, res):
    fails = []
    log = res["log"]
    for sn in log.snaps:
        if not sn["fds"] or all(not f.startswith("c") for f in sn["fds"]):
            # no client connection is open
            if sn["peers"] != 0 or sn["heap"] != 0 or sn["fds"] or sn["armed"]:
                fails.append("not at baseline with all connections gone (script step %d): peers=%d heap=%d fds=%s armed=%s" % (
                    sn["step"], sn["peers"], sn["heap"], sn["fds"], sn["armed"]))
    fin = log.final
    if fin is None or log.runio_ret is None:
        fails.append("daemon did not reach a clean exit")
    else:
        if log.runio_ret != 0:
            fails.append("run_io returned %d" % log.runio_ret)
        if fin["peers"] != 0 or fin["heap"] != 0 or fin["fds"] or fin["armed"] or (log.exit_heap or 0) != 0:
            fails.append("after SIGTERM: peers=%d heap=%d fds=%s armed=%s exit_heap=%s" % (
                fin["peers"], fin["heap"], fin["fds"], fin["armed"], log.exit_heap))
    return fails[:6]


# --------------------------------------------------------------------------- C04 (reference map)

def wellformed_add(params, local_only, is_local):
    if local_only and not is_local:
        return False
    if not is_obj(params):
        return False
    p = cget(params, b"path")
    if not isinstance(p, bytes):
        return False
    fo = cget(params, b"fetchOnly")
    if fo is not None and not isinstance(fo, bool):
        return False
    t = cget(params, b"timeout")
    if t is not None and (isinstance(t, bool) or not isinstance(t, float) or t < 0.001):
        return False
    a = cget(params, b"access")
    if a is not None:
        has_value = cget(params, b"value") is not None
        for key in ([b"fetchGroups", b"setGroups"] if has_value else [b"fetchGroups", b"callGroups"]):
            g = cget(a, key)
            if g is not None and not isinstance(g, list):
                return False
    return True


def mon_c04(sc, res):
    """Reference finite map; requires requests whose ids identify their responses (string/number ids, unique per step+conn)."""
    fails = []
    itr = res["itr"]
    R = {}   # path -> [owner, kind, value]
    fetch_only = set()   # paths of states added with fetchOnly: true
    cfgv = D.C.config_values(sc.variant)
    local_only = cfgv.get("CONFIG_ALLOW_ADD_ONLY_FROM_LOCALHOST", "false") == "true"
    origin = {st[1]: st[3] for st in sc.steps if st[0] == "connect"}
    addr2conn = {}
    snaps = {}
    for sn in res["log"].snaps:
        if 0 <= sn["step"] < len(itr.smap) and sn.get("internals", True):
            snaps[itr.smap[sn["step"]]] = sn
    uncertain = False
    dead = set()
    unknown = set()     # paths whose state is not known until the next snapshot
    for si, st in enumerate(sc.steps):
        for c, addr in itr.peers[si]:
            addr2conn[addr] = c
        sends = step_sends(res, si)
        closed = set(itr.closed[si])
        dups = dup_ids(step_requests(st, itr.replies, si))
        for c, top in step_requests(st, itr.replies, si):
            if top is None or c in dead:
                continue
            rs, _ = flatten_requests(top)
            resp = [v for d, ok, v in sends if d == c and is_response(v)]
            for r in rs:
                method = cget(r, b"method")
                rid = cget(r, b"id")
                params = cget(r, b"params")
                if isinstance(method, bytes) and method in (b"set", b"call") and is_obj(params) and isinstance(cget(params, b"path"), bytes) \
                        and is_id(rid) and (c, repr(rid)) not in dups and not uncertain and cget(params, b"path") not in unknown:
                    # set is refused for methods, unknown paths and fetch-only states; call for states and unknown paths: the
                    # requester gets an error at once (a request that is routed gets nothing in this step or the owner's answer)
                    pth = cget(params, b"path")
                    ent = R.get(pth)
                    must_refuse = ent is None or (method == b"set" and (ent[1] == "method" or pth in fetch_only)) or (method == b"call" and ent[1] == "state")
                    mine_sc = [v for v in resp if cget(v, b"id") == rid]
                    if must_refuse and not (len(mine_sc) == 1 and has_member(mine_sc[0], b"error")) and c not in closed:
                        why = "the path is unknown" if ent is None else ("the state is fetch-only" if pth in fetch_only and method == b"set" else "it is a %s" % ent[1])
                        fails.append("step %d: %s on %s by c%d was not refused although %s" % (si, method.decode(), show(pth), c, why))
                    continue
                if not isinstance(method, bytes) or method not in (b"add", b"remove", b"change"):
                    continue
                path = cget(params, b"path") if is_obj(params) else None
                mine = [v for v in resp if cget(v, b"id") == rid] if (is_id(rid) and (c, repr(rid)) not in dups) else []
                if len(mine) != 1 and not uncertain and isinstance(path, bytes) and path not in unknown and not is_id(rid) \
                        and cget(r, b"id") is None and c not in closed:
                    # a notification (no id at all): nothing tells its outcome, but a request that MUST be refused has no effect
                    # whether it is answered or not - the reference map stays as it is and the next state image is compared with it
                    must_refuse = (method == b"change" and not (path in R and R[path][0] == c and R[path][1] == "state" and has_member(params, b"value"))) or \
                                  (method == b"remove" and not (path in R and R[path][0] == c)) or \
                                  (method == b"add" and path in R)
                    if must_refuse:
                        continue
                if len(mine) != 1 or (isinstance(path, bytes) and path in unknown) or uncertain:
                    # outcome not observable (no id / duplicated id / connection dropped): resynchronise at the next snapshot
                    if isinstance(path, bytes):
                        uncertain = True
                        unknown.add(path)
                    continue
                ok = has_member(mine[0], b"result")
                code = cget(cget(mine[0], b"error"), b"code") if not ok else None
                if method == b"add":
                    wf = wellformed_add(params, local_only, origin.get(c) in D.LOCAL_ORIGINS or origin.get(c) == "unix")
                    if wf and path not in R:
                        if ok:
                            v = cget(params, b"value")
                            R[path] = [c, "state" if v is not None else "method", v]
                            if cget(params, b"fetchOnly") is True:
                                fetch_only.add(path)
                            else:
                                fetch_only.discard(path)
                        elif code != -32603.0:
                            fails.append("step %d: well-formed add of free path %s by c%d refused with code %s" % (si, show(path), c, code))
                    elif ok:
                        fails.append("step %d: add of %s by c%d succeeded although %s" % (
                            si, show(path) if isinstance(path, bytes) else path, c, "the path exists" if wf else "the request is malformed"))
                elif method == b"remove":
                    should = isinstance(path, bytes) and path in R and R[path][0] == c
                    if ok != should:
                        fails.append("step %d: remove of %s by c%d %s" % (si, show(path) if isinstance(path, bytes) else path, c,
                                                                            "succeeded for a non-owner/absent path" if ok else "was refused for its owner"))
                    if ok and isinstance(path, bytes):
                        R.pop(path, None)
                        fetch_only.discard(path)
                elif method == b"change":
                    v = cget(params, b"value") if is_obj(params) else None
                    should = isinstance(path, bytes) and path in R and R[path][0] == c and R[path][1] == "state" and has_member(params, b"value")
                    if ok != should:
                        fails.append("step %d: change of %s by c%d %s" % (si, show(path) if isinstance(path, bytes) else path, c,
                                                                            "accepted although not allowed" if ok else "refused although allowed"))
                    if ok and isinstance(path, bytes) and path in R:
                        R[path][2] = v
        for c in closed:
            dead.add(c)
            for p in [p for p, e in R.items() if e[0] == c]:
                del R[p]
                fetch_only.discard(p)
        if st[0] == "quiesce" and si in snaps:
            sn = snaps[si]
            img = {}
            for e in sn["elems"]:
                if e["path"] in img:
                    fails.append("step %d: path %s names two elements" % (si, show(e["path"])))
                img[e["path"]] = [addr2conn.get(e["owner"], -1), "state" if e["value"] != "~" else "method",
                                  canon_text(D.C.unhex(e["value"])) if e["value"] != "~" else None]
            fo_img = set(e["path"] for e in sn["elems"] if int(e.get("flags", "0") or 0) & 1)
            if uncertain:
                R = {p: list(v) for p, v in img.items()}
                fetch_only = set(fo_img)
                uncertain = False
                unknown = set()
            elif img != R:
                diff = {show(p): (img.get(p), R.get(p)) for p in set(img) | set(R) if img.get(p) != R.get(p)}
                fails.append("step %d: element set differs from the reference map (daemon, reference): %s" % (si, repr(diff)[:300]))
                R = {p: list(v) for p, v in img.items()}
                fetch_only = set(fo_img)
    return fails[:6]


# --------------------------------------------------------------------------- C01 (replica)

def _lower(b):
    return bytes(c + 32 if 65 <= c <= 90 else c for c in b)


def ref_rule(params):
    """python reference of the path rule: returns a predicate on path bytes, or None when the rule is refused/malformed
    (then the fetch must not have been installed)"""
    if not is_obj(params):
        return None
    rule = cget(params, b"path")
    if rule is None:
        return lambda p: True
    if not is_obj(rule):
        return None
    ci_items = [v for k, v in rule[1] if k.lower() == b"caseinsensitive"]
    ci = bool(ci_items) and ci_items[0] is True
    preds = []
    for k, v in rule[1]:
        if k == b"caseInsensitive":
            continue
        if k in (b"equals", b"equalsNot", b"startsWith", b"endsWith", b"contains"):
            if not isinstance(v, bytes):
                return None
            preds.append((k, [v]))
        elif k == b"containsAllOf":
            if not isinstance(v, list) or not v or not all(isinstance(x, bytes) for x in v):
                return None
            preds.append((k, v))
        else:
            return None
    if not preds:
        return None
    if sum(1 for k, _ in rule[1] if k == b"caseInsensitive") > 1:
        return None

    def pred(path):
        p = _lower(path) if ci else path
        for k, ops in preds:
            ops2 = [_lower(o) if ci else o for o in ops]
            if k == b"equals" and not p == ops2[0]:
                return False
            if k == b"equalsNot" and p == ops2[0]:
                return False
            if k == b"startsWith" and not p.startswith(ops2[0]):
                return False
            if k == b"endsWith" and not p.endswith(ops2[0]):
                return False
            if k in (b"contains", b"containsAllOf") and not all(o in p for o in ops2):
                return False
        return True
    return pred


def fid_key(v):
    """fetch ids are compared by the int field for numbers, by bytes for strings"""
    if isinstance(v, float):
        return ("n", D.vint_of(v))
    return ("s", v)


def mon_c01(sc, res):
    """Replays each subscriber's notifications into a replica and compares it, at every quiescent point, with the daemon's
    own element set filtered by a python reference of the fetch rule and by the group words the daemon holds."""
    fails = []
    itr = res["itr"]
    active = {}       # (conn, fidkey) -> dict(pred, replica{path: value}, healthy)
    addr2conn = {}
    snaps = {}
    for sn in res["log"].snaps:
        if 0 <= sn["step"] < len(itr.smap) and sn.get("internals", True):
            snaps[itr.smap[sn["step"]]] = sn
    dead = set()
    unhealthy = set()
    ended = {}        # (conn, fidkey) -> step of the unfetch response
    unobserved = set()
    for si, st in enumerate(sc.steps):
        for c, addr in itr.peers[si]:
            addr2conn[addr] = c
        sends = step_sends(res, si)
        for d, ok, v in sends:
            if not ok:
                unhealthy.add(d)
        # which fetch/unfetch requests are in this step, per connection, with their ids
        pending_fetch = {}
        pending_unfetch = {}
        tainted = set()      # fetch ids touched in this step by requests whose outcome cannot be observed
        dups = dup_ids(step_requests(st, itr.replies, si))
        for c, top in step_requests(st, itr.replies, si):
            if top is None or c in dead:
                continue
            rs, _ = flatten_requests(top)
            for r in rs:
                m = cget(r, b"method")
                rid = cget(r, b"id")
                params = cget(r, b"params")
                if m in (b"fetch", b"unfetch") and is_id(rid) and (c, repr(rid)) in dups and is_obj(params) and is_id(cget(params, b"id")):
                    tainted.add((c, fid_key(cget(params, b"id"))))
                elif m == b"fetch" and is_id(rid) and is_obj(params) and is_id(cget(params, b"id")):
                    pending_fetch.setdefault((c, repr(rid)), []).append(params)
                elif m == b"fetch" and is_obj(params) and is_id(cget(params, b"id")):
                    # no usable request id: installation cannot be observed; events for this fetch id are not judged
                    tainted.add((c, fid_key(cget(params, b"id"))))
                if m == b"unfetch" and is_id(rid) and (c, repr(rid)) not in dups and is_obj(params) and is_id(cget(params, b"id")):
                    pending_unfetch.setdefault((c, repr(rid)), []).append(params)
                elif m == b"unfetch" and is_obj(params) and is_id(cget(params, b"id")):
                    tainted.add((c, fid_key(cget(params, b"id"))))
        # walk the sends in order
        for d, ok, v in sends:
            if isinstance(v, tuple) and v and v[0] == "unparsable":
                continue
            if is_response(v):
                key = (d, repr(cget(v, b"id")))
                if has_member(v, b"result"):
                    if key in pending_fetch and len(pending_fetch[key]) == 1 and key not in pending_unfetch:
                        params = pending_fetch.pop(key)[0]
                        fk = (d, fid_key(cget(params, b"id")))
                        pred = ref_rule(params)
                        if fk in tainted:
                            pass
                        elif pred is None:
                            fails.append("step %d: fetch with a malformed rule was answered with success (c%d)" % (si, d))
                        else:
                            pre = active.get(fk, {}).get("early", {})
                            active[fk] = {"pred": pred, "replica": dict(pre), "since": si}
                            ended.pop(fk, None)
                            unobserved.discard(fk)
                    elif key in pending_unfetch and len(pending_unfetch[key]) == 1 and key not in pending_fetch:
                        params = pending_unfetch.pop(key)[0]
                        fk = (d, fid_key(cget(params, b"id")))
                        active.pop(fk, None)
                        ended[fk] = si
                    elif key in pending_fetch or key in pending_unfetch:
                        # ambiguous (same request id used twice in the step): give up on this connection's fetches
                        for fk in [f for f in active if f[0] == d]:
                            active.pop(fk)
                        unhealthy.add(d)
                continue
            meth = cget(v, b"method")
            params = cget(v, b"params")
            if meth is not None and is_obj(params) and cget(params, b"event") is not None and cget(v, b"id") is None:
                fk = (d, fid_key(meth))
                ev = cget(params, b"event")
                path = cget(params, b"path")
                val = cget(params, b"value")
                key_any = [kk for kk in pending_fetch if kk[0] == d and any(fid_key(cget(pp, b"id")) == fk[1] for pp in pending_fetch[kk])]
                if fk in tainted or (fk in unobserved and not key_any):
                    continue
                if fk in ended and d not in unhealthy and not key_any:
                    fails.append("step %d: c%d got a %s event for fetch %s after its unfetch response" % (si, d, ev.decode(), show(meth)))
                    continue
                if fk not in active:
                    # adds that precede the success response of the installing step
                    if ev == b"add" and key_any:
                        active.setdefault(fk, {"early": {}})
                        if "early" in active[fk]:
                            active[fk]["early"][path] = val
                        continue
                    if d not in unhealthy and fk not in unobserved:
                        fails.append("step %d: c%d got a %s event for %s with fetch id %s that is not installed" % (si, d, ev.decode(), show(path), show(meth)))
                    continue
                a = active[fk]
                if "replica" not in a:
                    if ev == b"add":
                        a["early"][path] = val
                    continue
                rep = a["replica"]
                if ev == b"add":
                    if path in rep and d not in unhealthy:
                        fails.append("step %d: duplicate add of %s to c%d fetch %s" % (si, show(path), d, show(meth)))
                    rep[path] = val
                elif ev == b"change":
                    if path not in rep and d not in unhealthy:
                        fails.append("step %d: change of unreported %s to c%d fetch %s" % (si, show(path), d, show(meth)))
                    rep[path] = val
                elif ev == b"remove":
                    if path not in rep and d not in unhealthy:
                        fails.append("step %d: remove of unreported %s to c%d fetch %s" % (si, show(path), d, show(meth)))
                    rep.pop(path, None)
        # fetches whose installing request failed leave "early" junk behind
        for fk in [f for f, a in active.items() if "replica" not in a]:
            active.pop(fk)
        for fk in tainted:
            active.pop(fk, None)
            unobserved.add(fk)
        for c in itr.closed[si]:
            dead.add(c)
            for fk in [f for f in active if f[0] == c]:
                active.pop(fk)
        if st[0] == "quiesce" and si in snaps:
            sn = snaps[si]
            groups_of = {}
            for p in sn["peerlist"]:
                groups_of[addr2conn.get(p["addr"], -1)] = int(p["groups"].split(",")[0])
            auth = bool(sc.users)
            for fk, a in active.items():
                c = fk[0]
                if c in unhealthy or c in dead or "replica" not in a:
                    continue
                want = {}
                for e in sn["elems"]:
                    eg = int(e["groups"].split(",")[0])
                    visible = (not auth) or (eg & groups_of.get(c, 0)) != 0
                    if visible and a["pred"](e["path"]):
                        want[e["path"]] = canon_text(D.C.unhex(e["value"])) if e["value"] != "~" else None
                if want != a["replica"]:
                    diff = {show(p): (a["replica"].get(p, "absent"), want.get(p, "absent")) for p in set(want) | set(a["replica"])
                            if want.get(p, "absent") != a["replica"].get(p, "absent")}
                    fails.append("step %d: replica of c%d fetch %s differs from the daemon's matching elements (replica, daemon): %s" % (
                        si, c, fk[1], repr(diff)[:300]))
    return fails[:6]


# --------------------------------------------------------------------------- C03 / C14 (routing)

def mon_c03(sc, res):
    """Every routed message reaches exactly the owner once with the caller's payload under a fresh id; every resolver
    (owner reply, timer expiry, owner/caller disconnect) yields exactly one final answer to a caller that has an id and
    nothing otherwise; the routing tables hold exactly the unresolved requests."""
    fails = []
    itr = res["itr"]
    inflight = {}      # rid(bytes) -> dict(caller, owner, origin, timer)
    snaps = {}
    for sn in res["log"].snaps:
        if 0 <= sn["step"] < len(itr.smap) and sn.get("internals", True):
            snaps[itr.smap[sn["step"]]] = sn
    dead = set()
    ever = set()
    for si, st in enumerate(sc.steps):
        sends = step_sends(res, si)
        reqs = [(c, v) for c, v in step_requests(st, itr.replies, si) if c not in dead and v is not None]
        _step_dups = dup_ids(reqs)
        cands, replies_in = [], []
        for c, top in reqs:
            rs, _ = flatten_requests(top)
            for r in rs:
                m = cget(r, b"method")
                if m in (b"set", b"call") and is_obj(cget(r, b"params")) and isinstance(cget(cget(r, b"params"), b"path"), bytes):
                    cands.append((c, r))
                if m is None and isinstance(cget(r, b"id"), bytes) and (has_member(r, b"result") or has_member(r, b"error")):
                    replies_in.append((c, r))
        arms = [t for t in itr.timers[si] if t[0] == "arm"]
        expect = []          # (conn, id, payload-check or None) final answers that MUST be sent in this step
        new_here = []
        for d, ok, v in sends:
            if isinstance(v, tuple) and v and v[0] == "unparsable":
                continue
            meth = cget(v, b"method")
            if meth is not None and isinstance(cget(v, b"id"), bytes) and isinstance(meth, bytes):
                rid = cget(v, b"id")
                if rid in ever:
                    fails.append("step %d: routed id %s was used before" % (si, show(rid)))
                ever.add(rid)
                match = pick_routed(cands, v, sends, _step_dups)
                if match is None:
                    fails.append("step %d: routed message %s to c%d corresponds to no set/call of this step with equal path and payload" % (si, show(v)[:160], d))
                    continue
                c, r = cands.pop(match)
                tm = arms[len(new_here)][1] if len(new_here) < len(arms) else None
                rec = {"caller": c, "owner": d, "origin": cget(r, b"id"), "timer": tm}
                new_here.append(rid)
                if ok:
                    inflight[rid] = rec
                elif is_id(rec["origin"]):
                    expect.append((c, rec["origin"], "error"))
        # resolvers of this step, in the order the daemon dispatched them
        def resolve_reply(rc, rr):
            rid = cget(rr, b"id")
            f = inflight.get(rid)
            if f is not None and f["owner"] == rc:
                inflight.pop(rid)
                if is_id(f["origin"]) and f["caller"] not in dead:
                    key = b"result" if has_member(rr, b"result") else b"error"
                    expect.append((f["caller"], f["origin"], (key, cget(rr, key))))

        def resolve_expiry(t):
            for rid in [r for r, f in inflight.items() if f["timer"] == t]:
                f = inflight.pop(rid)
                if is_id(f["origin"]) and f["caller"] not in dead:
                    expect.append((f["caller"], f["origin"], "error"))

        def resolve_close(c):
            for rid in [r for r, f in inflight.items() if f["owner"] == c or f["caller"] == c]:
                f = inflight.pop(rid)
                if f["owner"] == c and f["caller"] != c and f["caller"] not in dead and is_id(f["origin"]):
                    expect.append((f["caller"], f["origin"], "error"))
            dead.add(c)
        if st[0] == "mixed":
            order = []
            for sub in st[1]:
                h = ("t", sub[1]) if sub[0] == "timer" else (("c", sub[1]) if sub[0] != "advance" else None)
                if h is not None and h not in order:
                    order.append(h)
            for h in order:
                if h[0] == "t":
                    if h[1] in itr.expired[si]:
                        resolve_expiry(h[1])
                else:
                    for rc, rr in replies_in:
                        if rc == h[1]:
                            resolve_reply(rc, rr)
                    if h[1] in itr.closed[si]:
                        resolve_close(h[1])
            for c in itr.closed[si]:
                if c not in dead:
                    resolve_close(c)
        else:
            for rc, rr in replies_in:
                resolve_reply(rc, rr)
            for t in itr.expired[si]:
                resolve_expiry(t)
        closing = [c for c in itr.closed[si] if c not in dead]
        for c in closing:
            for rid in [r for r, f in inflight.items() if f["owner"] == c or f["caller"] == c]:
                f = inflight.pop(rid)
                if f["owner"] == c and f["caller"] != c and f["caller"] not in dead and f["caller"] not in closing and is_id(f["origin"]):
                    expect.append((f["caller"], f["origin"], "error"))
        # every expected final answer must appear exactly once among the responses of this step
        responses = [(d, v) for d, ok, v in sends if not (isinstance(v, tuple) and v and v[0] == "unparsable") and is_response(v)]
        failed_to = set(d for d, ok, v in sends if not ok)
        for (c, oid, chk) in expect:
            if c in itr.closed[si] or c in failed_to:
                continue        # the caller's own connection ended / refused a write in this step: nothing can be owed to it
            hits = [i for i, (d, v) in enumerate(responses) if d == c and cget(v, b"id") == oid and (
                (chk == "error" and has_member(v, b"error")) or (chk != "error" and has_member(v, chk[0]) and cget(v, chk[0]) == chk[1]))]
            if not hits:
                fails.append("step %d: caller c%d did not get its final answer for id %s (%s)" % (si, c, show(oid), "error" if chk == "error" else "owner's payload unchanged"))
            else:
                responses.pop(hits[0])
        for c in closing:
            dead.add(c)
        if st[0] == "quiesce" and si in snaps:
            sn = snaps[si]
            have = set()
            for p in sn["peerlist"]:
                if p["routes"] != "~":
                    for x in p["routes"].split(","):
                        have.add(D.C.unhex(x.split(":", 1)[1]))
            mine = set(inflight)
            if have != mine:
                fails.append("step %d: routing tables hold %s but the history says %s are in flight" % (
                    si, sorted(show(x) for x in have - mine)[:3], sorted(show(x) for x in mine - have)[:3]))
            if len(sn["armed"]) != len(mine):
                fails.append("step %d: %d timers armed for %d requests in flight" % (si, len(sn["armed"]), len(mine)))
    return fails[:6]


# --------------------------------------------------------------------------- C05 (connection end)

def _peer_lines(sn):
    """addr -> (peer record without routes, elements {path: dict}, routes set)"""
    peers = {}
    for p in sn["peerlist"]:
        peers[p["addr"]] = dict(p)
    elems = {}
    for e in sn["elems"]:
        elems[e["path"]] = dict(e)
    return peers, elems


def mon_c05(sc, res):
    """At every snapshot the daemon's state refers to live peers only; a close between two snapshots (with nothing else
    in between) leaves every other peer's elements, fetches and in-flight requests exactly as they were."""
    fails = []
    itr = res["itr"]
    log = res["log"]
    snaps = {}
    for sn in log.snaps:
        if 0 <= sn["step"] < len(itr.smap) and sn.get("internals", True):
            snaps[itr.smap[sn["step"]]] = sn
    addr2conn = {}
    conn_addr = {}
    dead = set()
    prev = None      # (step index, snapshot) of the last quiesce
    between = []
    for si, st in enumerate(sc.steps):
        for c, addr in itr.peers[si]:
            addr2conn[addr] = c
            conn_addr[c] = addr
        for c in itr.closed[si]:
            dead.add(c)
        if st[0] != "quiesce":
            between.append((si, st))
            continue
        sn = snaps.get(si)
        if sn is None:
            continue
        live_addrs = set(p["addr"] for p in sn["peerlist"])
        for c in dead:
            if conn_addr.get(c) in live_addrs and not any(cc for cc, a in conn_addr.items() if a == conn_addr.get(c) and cc not in dead):
                fails.append("step %d: peer of closed connection c%d is still in the peer list" % (si, c))
        for e in sn["elems"]:
            if e["owner"] not in live_addrs:
                fails.append("step %d: element %s is owned by a peer that no longer exists" % (si, show(e["path"])))
            if e["fetchers"] != "~":
                for x in e["fetchers"].split(","):
                    if x.split(":")[1] not in live_addrs:
                        fails.append("step %d: element %s still lists a fetch of a departed peer" % (si, show(e["path"])))
        # others untouched by a close that is alone between two snapshots
        if prev is not None and len(between) == 1 and between[0][1][0] in ("eof", "rst", "err") and itr.closed[between[0][0]] == [between[0][1][1]]:
            gone = conn_addr.get(between[0][1][1])
            p0, e0 = _peer_lines(prev[1])
            p1, e1 = _peer_lines(sn)
            for addr, rec in p0.items():
                if addr == gone:
                    continue
                if addr not in p1:
                    fails.append("step %d: peer c%d vanished when c%d closed" % (si, addr2conn.get(addr, -1), between[0][1][1]))
                    continue
                a, b = dict(rec), dict(p1[addr])
                # in-flight requests of the leaving peer routed to this one are dropped: compare the rest
                if a.pop("routes") != b.pop("routes"):
                    ra = set(prev[1]["peerlist"][[p["addr"] for p in prev[1]["peerlist"]].index(addr)]["routes"].split(","))
                    rb = set(p1[addr]["routes"].split(","))
                    lost = ra - rb - {"~"}
                    tok = (gone or "").encode().hex()[:-2]   # the routed id embeds the requester's address (cut by one character)
                    if any(tok not in x for x in lost) or (rb - ra - {"~"}):
                        fails.append("step %d: routing table of c%d changed beyond the leaving peer's own requests when c%d closed" % (
                            si, addr2conn.get(addr, -1), between[0][1][1]))
                if a != b:
                    fails.append("step %d: peer c%d changed when c%d closed: %s -> %s" % (si, addr2conn.get(addr, -1), between[0][1][1], a, b))
            for path, rec in e0.items():
                if rec["owner"] == gone:
                    if path in e1 and e1[path]["owner"] == gone:
                        fails.append("step %d: element %s of the closed connection survived" % (si, show(path)))
                    continue
                if path not in e1:
                    fails.append("step %d: element %s of another peer vanished when c%d closed" % (si, show(path), between[0][1][1]))
                    continue
                a, b = dict(rec), dict(e1[path])
                fa = [x for x in a.pop("fetchers").split(",") if x != "~" and x.split(":")[1] != gone]
                fb = [x for x in b.pop("fetchers").split(",") if x != "~"]
                a.pop("tablesize"), b.pop("tablesize")
                if a != b or sorted(x.split(":", 1)[1] for x in fa) != sorted(x.split(":", 1)[1] for x in fb):
                    fails.append("step %d: element %s of another peer changed when c%d closed" % (si, show(path), between[0][1][1]))
        prev = (si, sn)
        between = []
    return fails[:6]


def mon_c05_all(sc, res):
    return mon_c05(sc, res) + mon_c01(sc, res) + mon_c03(sc, res)


# --------------------------------------------------------------------------- C08 (access control)

def _names(v):
    return set(x for x in v if isinstance(x, bytes)) if isinstance(v, list) else set()


def mon_c08(sc, res):
    """With a credential file loaded: what a peer is shown / may set / may call follows the groups of the user it
    authenticated as (from the scenario's credential table), nothing else.  Passwords never appear in output or log."""
    fails = []
    itr = res["itr"]
    log = res["log"]
    auth = bool(sc.users)
    cfgv = D.C.config_values(sc.variant)
    local_only = cfgv.get("CONFIG_ALLOW_ADD_ONLY_FROM_LOCALHOST", "false") == "true"
    origin = {}
    for st in sc.steps:
        if st[0] == "connect":
            origin[st[1]] = st[3]
        elif st[0] == "connect_http":
            origin[st[1]] = st[2]
    users = {}
    for u in sc.users:
        a = canon_ast(u["auth"]) if u.get("auth") is not None else None
        users[D.sbytes(u["name"]).lower()] = a
    who = {}          # conn -> auth object of the user it authenticated as
    pwtab = {D.sbytes(u["name"]).lower(): D.sbytes(u["password"]) for u in sc.users}    # account -> password in force
    decl = {}         # path -> dict(fetch=set, set=set, call=set, kind)
    dead = set()
    secrets = [D.sbytes(u["password"]) for u in sc.users if len(D.sbytes(u["password"])) >= 5] + [b"new1", b"new2"] if auth else []
    for si, st in enumerate(sc.steps):
        sends = step_sends(res, si)
        reqs = [(c, v) for c, v in step_requests(st, itr.replies, si) if c not in dead and v is not None]
        # learn from successful authenticate / add / remove in this step (ids must identify the response)
        dups = dup_ids(reqs)
        for c, top in reqs:
            rs, _ = flatten_requests(top)
            resp = [v for d, ok, v in sends if d == c and is_response(v)]
            for r in rs:
                m = cget(r, b"method")
                rid = cget(r, b"id")
                params = cget(r, b"params")
                mine = [v for v in resp if cget(v, b"id") == rid] if (is_id(rid) and (c, repr(rid)) not in dups) else []
                okresp = len(mine) == 1 and has_member(mine[0], b"result")
                if m == b"passwd" and is_obj(params) and isinstance(cget(params, b"user"), bytes):
                    tgt = cget(params, b"user").lower()
                    if okresp and isinstance(cget(params, b"password"), bytes):
                        pwtab[tgt] = cget(params, b"password")
                    elif len(mine) != 1:
                        pwtab[tgt] = None          # outcome not observable: this account's password is unknown from here on
                if m == b"authenticate" and okresp and is_obj(params) and isinstance(cget(params, b"user"), bytes):
                    uname = cget(params, b"user").lower()
                    if uname in pwtab and pwtab[uname] is not None and cget(params, b"password") != pwtab[uname]:
                        fails.append("step %d: c%d was authenticated as %s with a password that is not that account's" % (si, c, show(cget(params, b"user"))))
                    elif uname not in users:
                        fails.append("step %d: c%d was authenticated as %s, an account the credential file does not have" % (si, c, show(cget(params, b"user"))))
                    who[c] = users.get(cget(params, b"user").lower())
                elif m == b"authenticate" and len(mine) != 1:
                    who[c] = "unknown"      # outcome not observable (no usable request id): this peer is not judged any more
                elif m == b"add" and is_obj(params) and isinstance(cget(params, b"path"), bytes):
                    if okresp:
                        a = cget(params, b"access")
                        decl[cget(params, b"path")] = {"fetch": _names(cget(a, b"fetchGroups")) if a is not None else set(),
                                                        "set": _names(cget(a, b"setGroups")) if a is not None else set(),
                                                        "call": _names(cget(a, b"callGroups")) if a is not None else set(), "owner": c}
                        if local_only and origin.get(c) not in D.LOCAL_ORIGINS and origin.get(c) != "unix":
                            fails.append("step %d: add from non-local origin %s accepted although only local adds are allowed" % (si, origin.get(c)))
                    elif len(mine) != 1:
                        # outcome unknown (no id, or an id used twice in this step): stop judging this path
                        decl.pop(cget(params, b"path"), None)
                        decl[cget(params, b"path")] = None
        # a connection that authenticates in this step changes its identity somewhere inside the step: what it is sent and what
        # is routed for it in this step is not attributed to either identity
        changing = set()
        changing_paths = set()   # elements added or removed in this step: their declaration is not the same for the whole step
        for c, top in reqs:
            for r in flatten_requests(top)[0]:
                if cget(r, b"method") == b"authenticate":
                    changing.add(c)
                elif cget(r, b"method") in (b"add", b"remove") and is_obj(cget(r, b"params")):
                    changing_paths.add(cget(cget(r, b"params"), b"path"))
        for c in itr.closed[si]:
            changing_paths.update(p_ for p_, dd_ in decl.items() if dd_ is not None and dd_.get("owner") == c)
        if auth:
            for d, ok, v in sends:
                if isinstance(v, tuple) and v and v[0] == "unparsable":
                    continue
                a = who.get(d)
                if a == "unknown" or d in changing:
                    continue
                mine = {"fetch": _names(cget(a, b"fetchGroups")) if a is not None else set(),
                        "set": _names(cget(a, b"setGroups")) if a is not None else set(),
                        "call": _names(cget(a, b"callGroups")) if a is not None else set()}
                params = cget(v, b"params")
                if cget(v, b"method") is not None and is_obj(params) and cget(params, b"event") is not None and cget(v, b"id") is None:
                    path = cget(params, b"path")
                    dd = decl.get(path) if path not in changing_paths else None
                    if dd is not None and not (dd["fetch"] & mine["fetch"]):
                        fails.append("step %d: c%d (user groups %s) was notified about %s whose fetch groups are %s" % (
                            si, d, sorted(mine["fetch"]), show(path), sorted(dd["fetch"])))
                elif is_response(v) and isinstance(cget(v, b"result"), list):
                    for ent in cget(v, b"result"):
                        path = cget(ent, b"path") if is_obj(ent) else None
                        dd = decl.get(path) if path not in changing_paths else None
                        if dd is not None and not (dd["fetch"] & mine["fetch"]):
                            fails.append("step %d: get result for c%d lists %s without a shared fetch group" % (si, d, show(path)))
                elif cget(v, b"method") is not None and isinstance(cget(v, b"id"), bytes) and isinstance(cget(v, b"method"), bytes):
                    # routed request delivered to the owner d: find the caller among this step's set/call requests
                    path = cget(v, b"method")
                    dd = decl.get(path) if path not in changing_paths else None
                    if dd is None:
                        continue
                    callers = []
                    for c, top in reqs:
                        rs, _ = flatten_requests(top)
                        for r in rs:
                            if cget(r, b"method") in (b"set", b"call") and is_obj(cget(r, b"params")) and cget(cget(r, b"params"), b"path") == path:
                                callers.append((c, cget(r, b"method")))
                    if len(set(callers)) == 1:
                        c, m = callers[0]
                        ca = who.get(c)
                        if ca == "unknown" or c in changing:
                            continue
                        key = b"setGroups" if m == b"set" else b"callGroups"
                        have = _names(cget(ca, key)) if ca is not None else set()
                        need = dd["set"] if m == b"set" else dd["call"]
                        if not (have & need):
                            fails.append("step %d: %s on %s by c%d (groups %s) was routed although the element requires %s" % (
                                si, m.decode(), show(path), c, sorted(have), sorted(need)))
        for c in itr.closed[si]:
            dead.add(c)
            who.pop(c, None)
            for p_ in [p_ for p_, dd_ in decl.items() if dd_ is not None and dd_.get("owner") == c]:
                del decl[p_]           # the owner's elements go with it
    # passwords never appear in any output or log line
    if secrets:
        blob = b"\n".join(c.out for c in log.conns.values())
        logs = "\n".join(t for _, t in log.logs).encode("utf-8", "replace")
        for s in set(secrets):
            if s in blob:
                fails.append("password %r appears in bytes written to a connection" % s)
            if s in logs:
                fails.append("password %r appears in a log line" % s)
    return fails[:6]


# --------------------------------------------------------------------------- C11 (fault isolation, differential)

def _streams(sc, res):
    """conn -> list of canonical JSON messages it was sent over the whole run (attempted sends); the address token inside
    routed request ids is replaced by the requester's connection number (addresses differ from run to run)"""
    import re
    addr = {}
    for si in range(len(sc.steps)):
        for c, a in res["itr"].peers[si]:
            addr[a[:-1].encode()] = c      # the id is cut by one character
    out = {}
    for si in range(len(sc.steps)):
        for d, ok, v in step_sends(res, si):
            if is_obj(v) and isinstance(cget(v, b"id"), bytes) and cget(v, b"method") is not None:
                rid = cget(v, b"id")
                m = re.search(rb"0x[0-9a-f]+$", rid)
                if m and m.group(0) in addr:
                    rid2 = rid[:m.start()] + b"<c%d>" % addr[m.group(0)]
                    v = ("obj", [(k, rid2 if k == b"id" else x) for k, x in v[1]])
            closing = bool(res["itr"].closed[si]) or sc.steps[si][0] in ("advance", "mixed")
            out.setdefault(d, []).append((si if closing else -1, v))
    # inside a step that tears a peer down (or fires several timers) the order of the answers follows table slot order,
    # which depends on addresses: compare those as multisets
    for d, l in out.items():
        res_l, i = [], 0
        while i < len(l):
            if l[i][0] >= 0:
                j = i
                while j < len(l) and l[j][0] == l[i][0]:
                    j += 1
                res_l += sorted((v for _, v in l[i:j]), key=repr)
                i = j
            else:
                res_l.append(l[i][1])
                i += 1
        out[d] = res_l
    return out


def mon_c11(sc, res):
    """Runs the same scenario with the faults removed and compares what every healthy peer receives, and the final
    state image; the daemon must also still be serving at the end (all script steps executed, clean exit)."""
    from . import dcheck
    fails = []
    log = res["log"]
    if log.runio_ret != 0:
        fails.append("event loop ended with %s" % log.runio_ret)
    faulty = set(st[1] for st in sc.steps if st[0] == "wmode")
    if not faulty and not any(st[0] == "raw" and st[1].startswith("ACCEPTFAIL") for st in sc.steps):
        return fails
    # a faulty peer that is itself a requester or an owner legitimately changes the history (its requests fail, requests routed
    # to it are answered with the delivery error): the differential claim is for faulty subscribers / bystanders
    for si, st in enumerate(sc.steps):
        seen_w = set(s2[1] for s2 in sc.steps[:si] if s2[0] == "wmode")
        for c, v in step_requests(st, res["itr"].replies, si):
            if c in seen_w:
                return fails
    owners = set()
    for sn in res["log"].snaps:
        if not sn.get("internals", True):
            continue
        a2c = {}
        for si2 in range(len(sc.steps)):
            for c, a in res["itr"].peers[si2]:
                a2c[a] = c
        for e in sn["elems"]:
            owners.add(a2c.get(e["owner"]))
    # (also from the requests themselves: a connection that ever asked to add an element counts as an owner; this is what
    # is left when the run carries no state images)
    for si2, st2 in enumerate(sc.steps):
        for c, v in step_requests(st2, res["itr"].replies, si2):
            if v is not None:
                for r in flatten_requests(v)[0]:
                    if cget(r, b"method") == b"add":
                        owners.add(c)
    if owners & faulty:
        return fails
    hsteps = []
    for st in sc.steps:
        if st[0] == "wmode":
            continue
        if st[0] == "raw" and st[1].startswith("ACCEPTFAIL"):
            # the healed run still wakes the listener (queued connection attempts must be accepted), it just does not fail
            hsteps.append(("raw", "EPOLL l%s:IN" % st[1].split()[1]))
            continue
        hsteps.append(st)
    healed = D.Scenario(hsteps, sc.variant, sc.users, sc.groups, sc.name + "(healed)")
    res2 = dcheck.run_one(healed)
    a, b = _streams(sc, res), _streams(healed, res2)
    # connection numbering is by CONNECT order, identical in both runs
    for c in sorted(set(a) | set(b)):
        if c in faulty:
            continue
        if a.get(c, []) != b.get(c, []):
            la, lb = a.get(c, []), b.get(c, [])
            i = 0
            while i < min(len(la), len(lb)) and la[i] == lb[i]:
                i += 1
            fails.append("healthy peer c%d receives something different when %s are faulty: message %d is %s, healed run has %s" % (
                c, sorted(faulty), i, show(la[i])[:140] if i < len(la) else "nothing", show(lb[i])[:140] if i < len(lb) else "nothing"))
    # final element image must be the same
    sa = res["log"].snaps[-1] if res["log"].snaps else None
    sb = res2["log"].snaps[-1] if res2["log"].snaps else None
    if sa and sb and sa.get("internals", True) and sb.get("internals", True):
        ea = sorted((e["path"], e["value"]) for e in sa["elems"])
        eb = sorted((e["path"], e["value"]) for e in sb["elems"])
        if ea != eb:
            fails.append("element set differs from the healed run: %s vs %s" % (ea[:4], eb[:4]))
    return fails[:6]


def mon_closes(sc, res):
    """A connection is dropped by the daemon only for reasons of its own: its stream ended or failed, it sent something the
    protocol rejects, or a response to its own request could not be written.  Never because of another peer."""
    fails = []
    itr = res["itr"]
    cfgv = D.C.config_values(sc.variant)
    maxmsg = int(cfgv["CONFIG_MAX_MESSAGE_SIZE"])
    for si, st in enumerate(sc.steps):
        if not itr.closed[si]:
            continue
        own_end = set()
        bad_input = set()
        subs = [st] if st[0] != "mixed" else list(st[1])
        for sub in subs:
            if sub[0] in ("eof", "rst", "err", "partial", "raw", "writable", "connect", "connect_http"):
                if len(sub) > 1 and isinstance(sub[1], int):
                    own_end.add(sub[1])
                if sub[0] == "raw":
                    own_end.update(range(0, 64))     # literal harness lines: not judged
        for c, v in step_requests(st, itr.replies, si):
            text_len = 0
            raw = None
            for sub in subs:
                if sub[0] == "msg" and sub[1] == c:
                    raw = sub[2]
                    text_len = max(text_len, len(raw if isinstance(raw, bytes) else D.jtext(raw)))
            if v is None or text_len > maxmsg:
                bad_input.add(c)
                continue
            rs, whole = flatten_requests(v)
            if not whole or not (is_obj(v) or isinstance(v, list)):
                bad_input.add(c)
            for r in rs:
                if cget(r, b"method") is None and (has_member(r, b"result") or has_member(r, b"error")) and not isinstance(cget(r, b"id"), bytes):
                    bad_input.add(c)
        failed_to = set(s[0] for s in itr.sends[si] if not s[1])
        for c in itr.closed[si]:
            if c not in itr.ever_peer:
                continue
            if c in own_end or c in bad_input or c in failed_to:
                continue
            fails.append("step %d: the daemon dropped c%d although its stream did not end, it sent nothing the protocol rejects and no write to it failed" % (si, c))
    return fails[:4]


def mon_c11_all(sc, res):
    return mon_c11(sc, res) + mon_closes(sc, res) + mon_c02(sc, res) + mon_c03(sc, res)


# --------------------------------------------------------------------------- C14 (deadlines)

def mon_c14(sc, res):
    """armed value = request's own timeout, else the element's, else the default; invalid timeouts are refused and arm
    nothing; the timeout answer appears only in a step in which that request's timer expired."""
    fails = []
    itr = res["itr"]
    cfgv = D.C.config_values(sc.variant)
    default_ns = int(float(cfgv["CONFIG_ROUTED_MESSAGES_TIMEOUT"]) * 1e9)
    elem_timeout = {}        # path -> ns (None = unknown)
    dead = set()
    timer_of = {}            # timer index -> (caller, origin id)
    answered = set()         # (connection, id) that received a response
    unhealthy = set()        # connections a send to which failed
    for si, st in enumerate(sc.steps):
        sends = step_sends(res, si)
        reqs = [(c, v) for c, v in step_requests(st, itr.replies, si) if c not in dead and v is not None]
        _step_dups = dup_ids(reqs)
        arms = [t for t in itr.timers[si] if t[0] == "arm"]
        routed = [(d, v) for d, ok, v in sends if is_obj(v) and cget(v, b"method") is not None and isinstance(cget(v, b"id"), bytes)]
        cands = []
        elem_at = {}
        all_wants = {}       # element -> deadline every set/call of this step on it would get (None: unknown)
        dups = dup_ids(reqs)
        for c, top in reqs:
            rs, _ = flatten_requests(top)
            resp = [v for d, ok, v in sends if d == c and is_response(v)]
            for r in rs:
                m = cget(r, b"method")
                params = cget(r, b"params")
                rid = cget(r, b"id")
                if m == b"add" and is_obj(params) and isinstance(cget(params, b"path"), bytes):
                    mine = [v for v in resp if cget(v, b"id") == rid] if (is_id(rid) and (c, repr(rid)) not in dups) else []
                    t = cget(params, b"timeout")
                    if len(mine) == 1 and has_member(mine[0], b"result"):
                        elem_timeout[cget(params, b"path")] = int(t * 1e9) if isinstance(t, float) and not isinstance(t, bool) else default_ns
                        if t is not None and (isinstance(t, bool) or not isinstance(t, float) or t < 0.001 or t * 1e9 >= 2.0 ** 64):
                            fails.append("step %d: add with invalid timeout %s was accepted" % (si, show(t)))
                    elif len(mine) != 1:
                        elem_timeout[cget(params, b"path")] = None
                elif m == b"remove" and is_obj(params) and isinstance(cget(params, b"path"), bytes):
                    pass
                elif m in (b"set", b"call") and is_obj(params) and isinstance(cget(params, b"path"), bytes):
                    cands.append((c, r))
                    # the element's declared timeout as it is when THIS request is processed (a later request of the same
                    # step may remove the element and add it again with another timeout)
                    elem_at[id(r)] = elem_timeout.get(cget(params, b"path"), None)
                    t_own = cget(params, b"timeout")
                    if isinstance(t_own, float) and not isinstance(t_own, bool) and t_own >= 0.001 and t_own * 1e9 < 2.0 ** 64:
                        all_wants.setdefault(cget(params, b"path"), []).append(int(t_own * 1e9))
                    elif t_own is None:
                        all_wants.setdefault(cget(params, b"path"), []).append(elem_at[id(r)])
        if len(arms) != len(routed) and not any(not ok for d, ok, v in sends):
            fails.append("step %d: %d timers armed for %d routed requests" % (si, len(arms), len(routed)))
        per_path = {}
        for i, (d, v) in enumerate(routed):
            if i >= len(arms):
                break
            path = cget(v, b"method")
            want = None
            src = None
            j = pick_routed(cands, v, sends, _step_dups)
            if j is not None:
                c, r = cands.pop(j)
                params = cget(r, b"params")
                t = cget(params, b"timeout")
                def _bad(tv):
                    return tv is not None and (isinstance(tv, bool) or not isinstance(tv, float) or tv < 0.001 or tv * 1e9 >= 2.0 ** 64)
                if _bad(t):
                    # the attribution of a routed message to one of several requests of the step on the same element is not always
                    # certain (requests without an id): if another request of the step on that element explains it, take that one
                    alt = [k for k, (c2, r2) in enumerate(cands) if cget(cget(r2, b"params"), b"path") == path
                           and cget(r2, b"method") == cget(r, b"method") and not _bad(cget(cget(r2, b"params"), b"timeout"))]
                    if alt:
                        c_alt, r_alt = cands.pop(alt[0])
                        cands.append((c, r))
                        c, r = c_alt, r_alt
                        params = cget(r, b"params")
                        t = cget(params, b"timeout")
                if t is not None:
                    if _bad(t):
                        # (a deadline whose nanoseconds do not fit into 64 bits cannot be armed: it must be refused)
                        fails.append("step %d: %s with invalid timeout %s was routed" % (si, cget(r, b"method").decode(), show(t)))
                    else:
                        want, src = int(t * 1e9), "request"
                else:
                    want, src = elem_at.get(id(r), elem_timeout.get(path, None)), "element/default"
                timer_of[arms[i][1]] = (c, cget(r, b"id"))
            if want is not None:
                per_path.setdefault(path, []).append((arms[i][2], want, src))
            else:
                per_path.setdefault(path, []).append((arms[i][2], None, src))
        # several routed requests on one element in one step cannot always be told apart (same id used twice, ids that are
        # prefixes of each other): per element the armed values are compared with the expected ones as multisets
        for path, lst in per_path.items():
            if any(w is None for _, w, _ in lst):
                continue
            got_v, want_v = sorted(a for a, _, _ in lst), sorted(w for _, w, _ in lst)
            others = all_wants.get(path, [])
            if None in others:
                continue
            for a, w in zip(got_v, want_v):
                # (a routed message cannot always be attributed to one of several requests of the step on the same element -
                # numeric ids are not echoed in the routed id, a batch may end half-way: any of them may explain the value)
                if abs(a - w) > 1 and not any(abs(a - o) <= 1 for o in others):
                    srcs = "/".join(sorted(set(x for _, _, x in lst)))
                    fails.append("step %d: request on %s armed %d ns, expected %d ns (%s)" % (si, show(path), a, w, srcs))
                    break
        # a request whose timer fired and was dispatched in this step has its final answer by the end of the step
        for d, ok, v in sends:
            if is_response(v) and is_id(cget(v, b"id")):
                answered.add((d, repr(cget(v, b"id"))))
        delivered = set(itr.expired[si]) if st[0] == "advance" else (
            set(sub[1] for sub in st[1] if sub[0] == "timer") & set(itr.expired[si]) if st[0] == "mixed" else set())
        for t in sorted(delivered):
            if t in timer_of:
                c0, rid0 = timer_of[t]
                if is_id(rid0) and c0 not in dead and c0 not in itr.closed[si] and (c0, repr(rid0)) not in answered \
                        and not any(d == c0 and not ok for d, ok, v in step_sends(res, si)) and c0 not in unhealthy:
                    fails.append("step %d: the deadline of c%d's request %s passed and its timer was dispatched, but the caller has no answer" % (si, c0, show(rid0)))
        for d, ok, v in sends:
            if not ok:
                unhealthy.add(d)
        # timeout answers only when the timer expired in this step
        for d, ok, v in sends:
            if is_response(v) and has_member(v, b"error"):
                data = cget(cget(v, b"error"), b"data")
                if is_obj(data) and cget(data, b"reason") == b"timeout for routed request":
                    hit = [t for t in itr.expired[si] if timer_of.get(t, (None, None))[0] == d and timer_of[t][1] == cget(v, b"id")]
                    if not hit:
                        fails.append("step %d: c%d got a timeout answer for id %s although no timer of such a request expired in this step" % (si, d, show(cget(v, b"id"))))
        for c in itr.closed[si]:
            dead.add(c)
    return fails[:6]


def mon_c14_all(sc, res):
    return mon_c14(sc, res) + mon_c03(sc, res) + mon_route_refusals(sc, res)


# --------------------------------------------------------------------------- wire discipline (C10 on the assembled daemon)

def mon_wire(log):
    """Per connection: the bytes the (simulated) kernel accepted are the frames the daemon handed to its writer, whole and in
    order; a frame the writer refused is either absent or - torn - the very last thing on the wire.  Judged on the kernel's
    side of the buffered writer, so it also sees a frame that was damaged while it waited in the write buffer."""
    fails = []
    for n, c in sorted(log.conns.items()):
        wire = c.out
        pos = 0
        torn = False
        for step, ret, frame in c.sends:
            if torn:
                break
            if ret == 0:
                have = wire[pos:pos + len(frame)]
                if have != frame[:len(have)]:
                    k = next((i for i in range(min(len(have), len(frame))) if have[i] != frame[i]), 0)
                    fails.append("wire of c%d: byte %d differs from the frames handed to the writer (frame of step %d, offset %d: wire %s, frame %s)" % (
                        n, pos + k, step, k, have[k:k + 8].hex(), frame[k:k + 8].hex()))
                    return fails
                pos += len(have)
                if len(have) < len(frame):
                    torn = True     # still queued (or the connection ended): nothing may follow
            else:
                rest = wire[pos:]
                k = 0
                while k < len(rest) and k < len(frame) and rest[k] == frame[k]:
                    k += 1
                if k > 0 and pos + k == len(wire):
                    pos += k
                    torn = True
        if pos != len(wire):
            fails.append("wire of c%d: %d byte(s) on the wire that are not (the continuation of) a frame handed to the writer: %s" % (
                n, len(wire) - pos, wire[pos:pos + 12].hex()))
    return fails[:3]


# --------------------------------------------------------------------------- refusals for lack of room

def mon_route_refusals(sc, res):
    """A routed request may be refused with "routing table full" only when the owner's table cannot take it.  With the default
    table (64 slots, neighbourhood 32) that needs at least 32 requests in flight at one owner: the monitor adds the entries
    every peer held at the last state image to the routed requests written since, and flags a refusal below that number."""
    fails = []
    cfgv = D.C.config_values(sc.variant)
    if int(cfgv.get("CONFIG_ROUTING_TABLE_ORDER", "6")) < 6:
        return fails
    itr = res["itr"]
    snaps = {}
    for sn in res["log"].snaps:
        if 0 <= sn["step"] < len(itr.smap) and sn.get("internals", True):
            snaps[itr.smap[sn["step"]]] = sn
    base = None      # entries at the last image (None: no image yet -> count from the start of the run, which is empty)
    since = 0
    for si, st in enumerate(sc.steps):
        for d, ok, v in step_sends(res, si):
            if is_obj(v) and cget(v, b"method") is not None and isinstance(cget(v, b"id"), bytes) and b"_" in cget(v, b"id"):
                since += 1
            if is_response(v) and has_member(v, b"error"):
                data = cget(cget(v, b"error"), b"data")
                if is_obj(data) and cget(data, b"reason") == b"routing table full" and (base or 0) + since < 32:
                    fails.append("step %d: c%d's request %s was refused with 'routing table full' although at most %d requests can be in flight" % (
                        si, d, show(cget(v, b"id")), (base or 0) + since))
        if si in snaps:
            base = sum(len([x for x in p["routes"].split(",") if x and x != "~"]) for p in snaps[si]["peerlist"])
            since = 0
    return fails[:3]


def mon_c02_all(sc, res):
    return mon_c02(sc, res) + mon_c03(sc, res) + mon_c14(sc, res)


def mon_c03_all(sc, res):
    return mon_c03(sc, res) + mon_c02(sc, res) + mon_route_refusals(sc, res)


# --------------------------------------------------------------------------- upgrade before frames

def mon_ws_upgrade(sc, res):
    """On a connection of the HTTP/WebSocket endpoint the daemon sends WebSocket frames only after it has sent its
    `101 Switching Protocols` on that connection (a peer that never saw the 101 cannot know the connection was switched)."""
    fails = []
    itr = res["itr"]
    http_conns = set(st[1] for st in sc.steps if (st[0] == "connect" and st[2] == "ws") or st[0] == "connect_http")
    got101 = set()
    flagged = set()
    for si in range(len(sc.steps)):
        for s_ in itr.sends[si]:
            c, ok, kind, payload = s_[0], s_[1], s_[2], s_[3]
            if c not in http_conns:
                continue
            if kind == "http" and payload.startswith(b"HTTP/1.1 101"):
                got101.add(c)
            elif kind in ("json", "wsctl") and c not in got101 and c not in flagged:
                flagged.add(c)
                fails.append("step %d: WebSocket frame sent to c%d although the daemon never answered its upgrade request with 101" % (si, c))
    return fails[:3]
