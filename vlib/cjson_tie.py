"""Correspondence between the Lean model of cJSON's text layer (lean/Cjet/Cjson.lean, driver drv_cjson)
and the REAL /repo/src/json/cJSON.c (harness/comp/cjson.c, compiled now from the tree under test with
ASan/UBSan), plus the evaluation of the property clauses on the implementation itself.

    run_cjson_tie(ctx, out) -> dict        (called from the C06 check; stand-alone: ./check cjson_dev)

Parts (every script line goes through both sides and is compared line by line):
  directed     every escape, \\u at every truncation, surrogates high/low/lone/reversed, BOM, nesting at
               limit-1 / limit / limit+1, everything unterminated, every literal truncated, numbers with every
               character class, trailing garbage, duplicate keys, every byte 0x00-0xff inside a string, all
               1- and 2-byte inputs over the full byte alphabet, all 65536 "\\uXXXX" strings
  exhaustive   all byte strings up to a length over a reduced alphabet of the 14 significant bytes
               `" \\ u [ ] { } , : 1 - e . SP` (complete; this part alone is reported as `exhaustive`)
  random       structured random trees, serialised with random white space / escape spellings, then mutated
               (bit flips, truncations, splices, deletions, insertions), from C.rng("cjson", i)
  strings      parse_string alone at random offsets (allocation length and raw bytes written are compared)
  printer      random trees (C strings; number texts from the implementation's own print_number) printed by both
  round trip   on the implementation alone: the text printed for every accepted input is parsed again and
               must give the same tree - strings and structure exactly, every finite double bit for bit (F65
               regression; only an infinity produced by strtod overflow may come back as `null`) - consume the
               whole text and print to the same text
  reference    every input that is strict RFC 8259 JSON (Python's json, duplicates kept) must be accepted and read to the
               same tree: strings byte for byte (all \\u escapes, surrogate pairs), structure, doubles; every returned
               tree is nested at most CJSON_NESTING_LIMIT deep
  numbers      directed doubles (1-ulp neighbours of short decimals, extremes, -0.0) and random ones: print_number's
               text must be a complete number token and strtod of it must be the identical double

Classification of a difference (WORKERS.md step 3):
  * sanitizer report on the implementation  -> memory-safety failure, VIOLATION with the (shrunk) input
    (F64, the one-byte over-read of parse_object behind a trailing ',', is repaired in /repo; its input
    scenarios/cjson_f64_comma_overread.txt runs as an ordinary regression line)
  * round-trip mismatch on the implementation -> property failure, VIOLATION with the input
  * otherwise model and code differ          -> VIOLATION no_input=True naming the correspondence
"""
import concurrent.futures
import itertools
import json
import os
import re
import struct
import sys
import time

from vlib import common as C

HARNESS = os.path.join(C.ROOT, "harness", "comp", "cjson.c")
ALPHABET = [0x22, 0x5C, 0x75, 0x5B, 0x5D, 0x7B, 0x7D, 0x2C, 0x3A, 0x31, 0x2D, 0x65, 0x2E, 0x20]
REGRESSIONS = [os.path.join(C.ROOT, "scenarios", "cjson_f64_comma_overread.txt")]
MAXPROC = 4
sys.setrecursionlimit(max(sys.getrecursionlimit(), 12000))   # dumps of trees nested to the limit
CHUNK = 60000


# --------------------------------------------------------------------------- running both sides

def build():
    return C.cc_build("cjson", [HARNESS], link_flags=["-lm"])


def _asan_summary(err):
    m = re.search(r"ERROR: (AddressSanitizer|LeakSanitizer|UndefinedBehaviorSanitizer)[^\n]*", err)
    s = m.group(0) if m else ""
    m2 = re.search(r"(READ|WRITE) of size \d+", err)
    m3 = re.search(r"is located (\d+ bytes [^\n]*)", err)
    m4 = re.search(r"runtime error: [^\n]*", err)
    fr = re.findall(r"#\d+ 0x[0-9a-f]+ in (\w+) ", err)[:4]
    return " ".join(x for x in [s, m2.group(0) if m2 else "", m3.group(1) if m3 else "", m4.group(0) if m4 else "",
                                "<-".join(fr)] if x)[:400]


MAX_ABORTS_PER_CHUNK = 12


def run_harness_chunk(binp, lines, max_aborts=MAX_ABORTS_PER_CHUNK):
    """Runs the lines; a sanitizer abort at line k is recorded as `SAN <summary>` and the script goes on behind it.
    After `max_aborts` aborts the rest of the chunk is not run (`SKIP`): the failing inputs are already in hand."""
    res = []
    i = 0
    env = {"ASAN_OPTIONS": "detect_leaks=1:abort_on_error=0:allocator_may_return_null=1",
           "UBSAN_OPTIONS": "print_stacktrace=1"}
    aborts = 0
    while i < len(lines):
        rc, out, err = C.sh([binp], inp=("\n".join(lines[i:]) + "\n").encode(), env=env, timeout=1200)
        got = out.splitlines()
        if len(got) >= len(lines) - i:
            res += got[:len(lines) - i]
            if rc != 0:
                # everything answered but the process reported at exit: a leak
                res.append("ATEXIT " + _asan_summary(err))
            return res
        res += got
        res.append("SAN " + (_asan_summary(err) or ("rc=%d %s" % (rc, err[-200:].replace("\n", " ")))))
        i = len(res)
        aborts += 1
        if aborts >= max_aborts:
            res += ["SKIP"] * (len(lines) - i)
            return res
    return res


def run_both(binp, lines, drv_args=()):
    """-> (driver lines, harness lines, atexit notes)"""
    chunks = [lines[i:i + CHUNK] for i in range(0, len(lines), CHUNK)] or [[]]
    with concurrent.futures.ThreadPoolExecutor(max_workers=MAXPROC) as ex:
        hf = [ex.submit(run_harness_chunk, binp, ch) for ch in chunks]
        df = [ex.submit(C.run_drv, "cjson", "\n".join(ch) + "\n", drv_args) for ch in chunks]
        d, h, notes = [], [], []
        for ch, a, b in zip(chunks, df, hf):
            dl = a.result()
            hl = b.result()
            if len(hl) == len(ch) + 1 and hl[-1].startswith("ATEXIT"):
                notes.append((ch, hl[-1]))
                hl = hl[:-1]
            if len(dl) != len(ch) or len(hl) != len(ch):
                raise RuntimeError("line count mismatch: script %d driver %d harness %d" % (len(ch), len(dl), len(hl)))
            d += dl
            h += hl
    return d, h, notes


def canon_h(line):
    """harness `ok <end> <tree> <printed>` -> (comparable line, printed hex or None)"""
    if line.startswith("ok ") and not line.startswith("ok alloc") and " alloc=" not in line:
        parts = line.split(" ")
        if len(parts) >= 4:
            return " ".join(parts[:-1]), parts[-1]
    return line, None


def canon_d(line):
    if line.startswith("OOB"):
        return "SAN"
    return line


def same(dl, hl):
    if hl == "SKIP":
        return True
    hc, _ = canon_h(hl)
    if hc.startswith("SAN"):
        return dl.startswith("OOB")
    return dl == hc


# --------------------------------------------------------------------------- corpus

def hx(b):
    return b.hex() if b else "-"


def directed(limit):
    c = []
    add = c.append
    # escapes
    add(b'"\\b\\f\\n\\r\\t\\"\\\\\\/"')
    for ch in range(256):
        add(b'"\\' + bytes([ch]) + b'"')
        add(b'"' + bytes([ch]) + b'"')
        add(b'["a' + bytes([ch]) + b'c"]')
        add(bytes([ch]) + b'[' + bytes([ch]) + b'1' + bytes([ch]) + b',' + bytes([ch]) + b'2' + bytes([ch]) + b']' + bytes([ch]))
        add(b'{"k' + bytes([ch]) + b'":"v' + bytes([ch]) + b'"}')
    # \u at every truncation
    for full in (b'"\\u0041"', b'"\\uD83D\\uDE00"', b'"x\\u00e9y"', b'{"\\u0041":"\\uD83D\\uDE00"}', b'["\\uD83D\\uDE00"]'):
        for k in range(len(full) + 1):
            add(full[:k])
            add(full[:k] + b'"')
            add(full[:k] + b'"]')
            add(full[:k] + b'\\')
    # surrogates and boundaries
    cps = ["0000", "0001", "001f", "0020", "007f", "0080", "07ff", "0800", "d7ff", "D7FF", "d800", "D800", "dbff", "DBFF",
           "dc00", "DC00", "dfff", "DFFF", "e000", "E000", "fffd", "ffff", "FFFF", "00e9", "20AC", "abcd", "ABCD", "aBcD"]
    for a in cps:
        add(('"\\u%s"' % a).encode())
        add(('"a\\u%sb"' % a).encode())
        for b in cps:
            add(('"\\u%s\\u%s"' % (a, b)).encode())
    for hi in ("d800", "dbff", "D83D"):
        for tail in (b"", b"a", b"abcdef", b"\\n1234", b"\\u", b"\\u0", b"\\u00", b"\\u004", b"\\x0041", b"\\U0041", b"/u0041",
                     b"\\uZZZZ", b"\\udc0", b"\\udc0g", b"\\\\udc00", b" \\udc00"):
            add(b'"\\u' + hi.encode() + tail + b'"')
    for bad in ("00G0", "ZZZZ", " 041", "+041", "-041", "0x41", "004", "00", "0", "", "g000", "000g", "00:0", "00/0", "00@0",
                "00`0", "00[0", "00{0", "\\\\\\\\", "0\\\\0", "000\\"):
        add(('"\\u%s"' % bad).encode())
        add(('"\\u%s' % bad).encode())
        add(('["\\u%s","x"]' % bad).encode())
        add(('"\\u%s\\"' % bad).encode())
        add(('"\\u%s\\\\"' % bad).encode())
        add(('"\\u%s\\\\""' % bad).encode())
    # escape structure seen differently by the two passes of parse_string
    for s in (b'"\\u000\\\\"', b'"\\u000\\"', b'"\\u000\\""', b'"\\u00\\\\\\"', b'"\\u0\\\\\\\\"', b'"\\u\\\\\\\\"', b'"\\u\\\\\\\\\\\\"',
              b'"\\u000\\\\u1234"', b'"\\u000\\\\uD800"', b'"\\u000\\\\n"', b'"\\u000\\u0041"', b'"\\uD800\\u000\\"',
              b'"\\uD800\\uDC0\\"', b'"\\uD800\\uDC0\\\\"', b'"\\u000\\\\\\u000\\\\\\u000\\\\"', b'"\\u000\\\\\\\\\\\\"'):
        add(s)
        add(s + b" ")
        add(b"[" + s + b"]")
        add(s[:-1])
    # BOM
    bom = b"\xef\xbb\xbf"
    for tail in (b"", b"1", b"12", b"[]", b" []", b"null", b"nul", b"{}", bom + b"[]", b"\xef[]", b'"a"'):
        add(bom + tail)
    for k in (1, 2):
        add(bom[:k] + b"[1]  ")
    add(b" " + bom + b"[]")
    add(b"\xef\xbb\xbe[1]x")
    add(b"\xef\xbb[1]xx")
    # nesting
    for k in (limit - 1, limit, limit + 1, limit + 2, 2 * limit + 3):
        if k < 1:
            continue
        add(b"[" * k + b"]" * k)
        add(b"[" * k)
        add(b"[" * k + b"1" + b"]" * k)
        add(b"[" * k + b"]" * (k - 1))
        add(b'{"a":' * k + b"1" + b"}" * k)
        add(b'{"":' * k + b"{}" + b"}" * k)
        add(b'{"a":' * k)
        add(b'[{"a":' * (k // 2) + b"[]" + b"}]" * (k // 2))
        add(b" [" * k + b" ]" * k)
        add(b"[[]," * (k - 1) + b"[]" + b"]" * (k - 1))
    # unterminated everything
    for full in (b'"abc"', b"[1,2]", b'{"a":1,"b":[true,false,null]}', b'[ 1 , 2 ]', b'{ "a" : 1 , "b" : 2 }', b'[[],{}]',
                 b'{"a":{"b":{"c":"d"}}}', b'[-1.5e+3,"x\\ny"]', b"null", b"true", b"false", b'{"a":1,"a":2,"A":3}',
                 b'[null,true,false,nullx]', b"\t\r\n [\t\r\n1\t\r\n,\t\r\n2\t\r\n]\t\r\n"):
        for k in range(len(full) + 1):
            add(full[:k])
            add(full[:k] + b" ")
            add(full[:k] + b"\x00")
        for k in range(len(full)):
            add(full[:k] + full[k + 1:])
            add(full[:k] + b"," + full[k:])
            add(full[:k] + b'"' + full[k:])
    # literals
    for lit in (b"null", b"true", b"false"):
        for k in range(len(lit) + 1):
            add(lit[:k])
            add(b"[" + lit[:k] + b"]")
            add(b"[" + lit[:k])
            add(lit[:k] + b"x")
            add(lit[:k].upper())
        add(lit + lit)
        add(lit + b"x")
        add(lit + b",")
        add(b" " + lit + b" ")
        add(lit[:-1] + bytes([lit[-1] ^ 0x20]))
    # numbers
    nums = [b"0", b"-0", b"-", b"+1", b"1.", b".5", b"-.5", b"-.", b"1e5", b"1E+5", b"1E-5", b"1e", b"1e+", b"1e-", b"1.e5", b"1..2",
            b"1.2.3", b"--1", b"1-2", b"1+2", b"1e5e5", b"0x10", b"00", b"01", b"1e99999", b"1e-99999", b"-1e400", b"1e400",
            b"4.9e-324", b"2.4703282292062327e-324", b"2.4703282292062328e-324", b"1.7976931348623157e308",
            b"1.7976931348623158e308", b"1.7976931348623159e308", b"2.2250738585072014e-308", b"2.2250738585072011e-308",
            b"0.1", b"0.30000000000000004", b"9007199254740993", b"9007199254740992.5", b"2147483647", b"2147483648",
            b"-2147483648", b"-2147483649", b"1e+", b"1E", b"-e", b"-e5", b"-+1", b"-1-", b"1e1.5", b"1.5.e3", b"1ee5", b"1eE5",
            b"1e+-5", b"1" * 62, b"1" * 63, b"1" * 64, b"1" * 70, b"-" + b"9" * 62, b"-" + b"9" * 63, b"0." + b"3" * 60, b"0." + b"3" * 61,
            b"0." + b"3" * 62, b"1" * 61 + b"e5", b"1" * 62 + b"e5", b"1" * 60 + b"e+5", b"1" * 61 + b".5", b"1" * 62 + b".",
            b"1" * 63 + b".", b"5e0000000", b"1e-00000001", b"1e00000000030", b"1e+0000000000000000000000000000000000000000000000000000005", b"0e999999999", b"0.0e-999999999", b"5e-1", b"-1.5e+300", b"1e-07", b"123456789012345678", b"0.000001", b"1e23", b"8.5e22"]
    for n in nums:
        add(n)
        add(b"[" + n + b"]")
        add(b"[" + n + b",1]")
        add(b'{"a":' + n + b"}")
        add(n + b" ")
        add(b" " + n)
        add(n + b"x")
    # trailing garbage / leniencies
    for s in (b"", b" ", b"  ", b"\x00", b"1 x", b"{}x", b"[]]", b"nullnull", b'"a"b', b"{} {}", b"[] []", b"[1]\x00garbage", b"{}\xff",
              b'{"a":1,"a":2}', b'{"a":1,"A":2,"a":3}', b'{"":1,"":2}', b'{"a\\u0000b":1}', b'"a\\u0000b"', b'"\\u0000"', b'["\\u0000x","y"]',
              b'{"a" 1}', b'{"a":1 "b":2}', b"[1 2]", b"[,]", b"[1,,2]", b"[1,]", b"{,}", b'{"a":1,}', b'{"a":1,,}', b'{"a":,}', b'{:1}', b"{1:1}",
              b"{null:1}", b"{'a':1}", b"['a']", b"[1;2]", b"\x0b[\x0c]", b"\x1f{\x1f}", b"\x7f[]", b"\x80[]", b"[\x80]", b"[1\x00]", b"[\x001]",
              b'"\\', b'"\\"', b'"\\\\', b'"\\\\"', b'"a\\', b'["\\"]', b'{"\\":1}'):
        add(s)
    return c


def u_escape_all():
    return [('"\\u%04x"' % v).encode() for v in range(0x10000)]


def surrogate_pairs(rng, n, complete):
    if complete:
        for hi in range(0xD800, 0xDC00):
            for lo in range(0xDC00, 0xE000):
                yield ('"\\u%04x\\u%04x"' % (hi, lo)).encode()
    else:
        for _ in range(n):
            hi = rng.randrange(0xD800, 0xDC00)
            lo = rng.randrange(0xDC00, 0xE000)
            fmt = rng.choice(['"\\u%04x\\u%04x"', '"\\u%04X\\u%04X"', '"\\u%04x\\u%04X"'])
            yield (fmt % (hi, lo)).encode()


def exhaustive(maxlen, alphabet=ALPHABET):
    for n in range(0, maxlen + 1):
        for t in itertools.product(alphabet, repeat=n):
            yield bytes(t)


# --------------------------------------------------------------------------- random trees and texts

INTERESTING = [0x22, 0x5C, 0x2F, 0x08, 0x0C, 0x0A, 0x0D, 0x09, 0x01, 0x1F, 0x20, 0x7F, 0x80, 0xC3, 0xA9, 0xFF, 0x61, 0x62, 0x75, 0x30]


def rand_string(r, nul=False):
    n = r.choice([0, 0, 1, 1, 2, 3, 5, 8, 13, 30]) if r.random() < 0.9 else r.randrange(60, 140)
    out = bytearray()
    for _ in range(n):
        x = r.random()
        if x < 0.5:
            out.append(r.randrange(0x20, 0x7F))
        elif x < 0.85:
            out.append(r.choice(INTERESTING))
        else:
            out.append(r.randrange(0 if nul else 1, 256))
    return bytes(out)


def rand_double_bits(r):
    x = r.random()
    if x < 0.3:
        v = float(r.randrange(-1000, 1000))
    elif x < 0.5:
        v = r.randrange(-10 ** 6, 10 ** 6) / r.choice([10, 100, 1000, 3, 7])
    elif x < 0.6:
        v = r.choice([0.0, -0.0, 0.1, 0.2, 0.30000000000000004, 1e21, 1e22, 1e-7, 1e15, 1e16, 123456789012345680.0, 5e-324,
                      1.7976931348623157e308, 2.2250738585072014e-308, 2147483647.0, 2147483648.0, -2147483649.0, 4294967296.0])
    else:
        bits = r.getrandbits(64)
        e = (bits >> 52) & 0x7FF
        if e == 0x7FF:
            bits &= ~(1 << 62)
        return bits
    return struct.unpack(">Q", struct.pack(">d", v))[0]


def rand_tree(r, depth, numbers=True):
    """tree in the token form: ('n',) ('t',) ('f',) ('N', bits) ('s', bytes) ('a', [..]) ('o', [(k, v)..])"""
    x = r.random()
    if depth <= 0 or x < 0.45:
        k = r.randrange(6 if numbers else 5)
        if k == 0:
            return ("n",)
        if k == 1:
            return ("t",)
        if k == 2:
            return ("f",)
        if k in (3, 4):
            return ("s", rand_string(r))
        return ("N", rand_double_bits(r))
    n = r.choice([0, 1, 1, 2, 2, 3, 4, 6])
    if x < 0.72:
        return ("a", [rand_tree(r, depth - 1, numbers) for _ in range(n)])
    keys = [rand_string(r) if r.random() < 0.7 else r.choice([b"a", b"A", b"", b"id"]) for _ in range(n)]
    return ("o", [(k, rand_tree(r, depth - 1, numbers)) for k in keys])


def ws(r):
    if r.random() < 0.75:
        return b""
    return bytes(r.choice([0x20, 0x20, 0x09, 0x0A, 0x0D, 0x00, 0x01, 0x1F]) for _ in range(r.choice([1, 1, 2, 3])))


def ser_string(r, s):
    out = bytearray(b'"')
    for ch in s:
        x = r.random()
        if ch == 0x22:
            out += b'\\"' if x < 0.9 else b"\\u0022"
        elif ch == 0x5C:
            out += b"\\\\" if x < 0.9 else b"\\u005c"
        elif ch == 0x2F:
            out += b"/" if x < 0.5 else b"\\/"
        elif ch in (8, 12, 10, 13, 9):
            short = {8: b"\\b", 12: b"\\f", 10: b"\\n", 13: b"\\r", 9: b"\\t"}[ch]
            out += short if x < 0.6 else (bytes([ch]) if x < 0.8 else b"\\u%04x" % ch)
        elif ch < 0x20:
            out += (b"\\u%04x" % ch) if x < 0.6 else ((b"\\u%04X" % ch) if x < 0.8 else bytes([ch]))
        elif ch < 0x80:
            out += bytes([ch]) if x < 0.9 else b"\\u%04x" % ch
        else:
            out.append(ch)
    out += b'"'
    return bytes(out)


def num_text(r, bits):
    v = struct.unpack(">d", struct.pack(">Q", bits))[0]
    x = r.random()
    if v != v or v in (float("inf"), float("-inf")):
        return b"1e999" if v > 0 else b"-1e999"
    if x < 0.6:
        return repr(v).encode()
    if x < 0.8:
        return ("%.17g" % v).encode()
    if x < 0.9:
        return ("%e" % v).encode().replace(b"e", b"E")
    return ("%.3f" % v).encode() if abs(v) < 1e15 else repr(v).encode()


def ser(r, t):
    k = t[0]
    if k == "n":
        return b"null"
    if k == "t":
        return b"true"
    if k == "f":
        return b"false"
    if k == "N":
        return num_text(r, t[1])
    if k == "s":
        return ser_string(r, t[1])
    if k == "a":
        return b"[" + ws(r) + (b"," + ws(r)).join(ser(r, x) + ws(r) for x in t[1]) + b"]"
    return b"{" + ws(r) + (b"," + ws(r)).join(ser_string(r, kk) + ws(r) + b":" + ws(r) + ser(r, v) + ws(r) for kk, v in t[1]) + b"}"


def mutate(r, txt, other):
    b = bytearray(txt)
    k = r.randrange(7)
    if not b:
        return bytes(b)
    if k == 0:
        for _ in range(r.choice([1, 1, 2, 4])):
            i = r.randrange(len(b))
            b[i] ^= 1 << r.randrange(8)
    elif k == 1:
        b = b[:r.randrange(len(b) + 1)]
    elif k == 2:
        i = r.randrange(len(b) + 1)
        j = r.randrange(len(other) + 1)
        l = r.randrange(len(other) - j + 1)
        b[i:i] = other[j:j + l]
    elif k == 3:
        i = r.randrange(len(b))
        j = min(len(b), i + r.choice([1, 1, 2, 3, 8]))
        del b[i:j]
    elif k == 4:
        i = r.randrange(len(b) + 1)
        b[i:i] = bytes([r.choice([0x22, 0x5C, 0x2C, 0x3A, 0x5B, 0x5D, 0x7B, 0x7D, 0x00, 0x20, 0x2D, 0x65, 0x2E, 0x75])])
    elif k == 5:
        i = r.randrange(len(b))
        b[i] = r.choice([0x22, 0x5C, 0x2C, 0x3A, 0x5B, 0x5D, 0x7B, 0x7D, 0x00, 0x20, r.randrange(256)])
    else:
        # cut right behind a structural character (what a short read would leave)
        pos = [i + 1 for i, ch in enumerate(b) if ch in b',:[{"\\']
        if pos:
            b = b[:r.choice(pos)]
    return bytes(b)


def tok_tree(t, numtext):
    """token form -> dump syntax (numbers with the text the implementation prints for them)"""
    k = t[0]
    if k in "ntf":
        return [k]
    if k == "N":
        return ["N%s:%x" % (hx(numtext[t[1]]), t[1])]
    if k == "s":
        return ["s" + hx(t[1])]
    if k == "a":
        out = ["a%d" % len(t[1])]
        for x in t[1]:
            out += tok_tree(x, numtext)
        return out
    out = ["o%d" % len(t[1])]
    for kk, v in t[1]:
        out += [hx(kk)] + tok_tree(v, numtext)
    return out


def tree_bits(t, acc):
    if t[0] == "N":
        acc.add(t[1])
    elif t[0] == "a":
        for x in t[1]:
            tree_bits(x, acc)
    elif t[0] == "o":
        for _, v in t[1]:
            tree_bits(v, acc)


# --------------------------------------------------------------------------- dumps

def parse_dump(toks, i=0):
    """dump tokens -> nested tuple with numbers as ('N', token hex, bits)"""
    t = toks[i]
    if t in ("n", "t", "f"):
        return (t,), i + 1
    if t[0] == "N":
        a, b = t[1:].split(":")
        return ("N", a, int(b, 16)), i + 1
    if t[0] == "s":
        return ("s", t[1:]), i + 1
    if t[0] == "a":
        n = int(t[1:])
        i += 1
        items = []
        for _ in range(n):
            x, i = parse_dump(toks, i)
            items.append(x)
        return ("a", tuple(items)), i
    if t[0] == "o":
        n = int(t[1:])
        i += 1
        ms = []
        for _ in range(n):
            k = toks[i]
            x, i = parse_dump(toks, i + 1)
            ms.append((k, x))
        return ("o", tuple(ms)), i
    raise ValueError("bad dump token %r" % t)


def compare_modulo_numbers(t1, t2, changes):
    """structural equality where a number of t1 may meet any number or (for a non-finite / overflowing double, which
    print_number renders as `null`) a null in t2; differing numbers are appended to `changes`"""
    if t1[0] == "N":
        if t2[0] == "N":
            if t1[2] != t2[2]:
                changes.append((t1[2], t2[2]))
            return True
        if t2[0] == "n":
            changes.append((t1[2], None))
            return True
        return False
    if t1[0] != t2[0]:
        return False
    if t1[0] == "a":
        return len(t1[1]) == len(t2[1]) and all(compare_modulo_numbers(a, b, changes) for a, b in zip(t1[1], t2[1]))
    if t1[0] == "o":
        return len(t1[1]) == len(t2[1]) and all(
            ka == kb and compare_modulo_numbers(a, b, changes) for (ka, a), (kb, b) in zip(t1[1], t2[1]))
    return t1 == t2


def outcome_kind(inp, dline):
    w = dline.split(" ", 3)
    if w[0] == "ok":
        root = w[2][0]
        kind = {"n": "scalar", "t": "scalar", "f": "scalar", "N": "number", "s": "string", "a": "array", "o": "object"}[root]
        return "accepted_" + kind + ("" if int(w[1]) == len(inp) else "_with_trailing_bytes")
    if w[0] == "OOB":
        return "overread"
    if w[0] != "FAIL":
        return "other"
    if not inp:
        return "rejected_empty"
    pos = int(w[1])
    ch = inp[pos] if pos < len(inp) else 0
    at_end = pos >= len(inp) - 1
    if ch in b'"\\':
        k = "string"
    elif ch in b"[]{},:":
        k = "structure"
    elif ch in b"0123456789+-.eE":
        k = "number"
    elif ch <= 0x20:
        k = "whitespace"
    elif ch >= 0x80:
        k = "highbyte"
    else:
        k = "other_byte"
    return "rejected_at_%s%s" % (k, "_end_of_input" if at_end else "")


# --------------------------------------------------------------------------- reference reader (strict JSON, RFC 8259)

_LONG_NUMBER = re.compile(rb"[-+0-9.eE]{64,}")


class _Skip(Exception):
    pass


def _no_const(x):
    raise _Skip()


def ref_tree(inp, limit):
    """strict RFC 8259 reading of `inp` with Python's json (duplicates kept, strings as UTF-8 bytes cut at the first
    NUL as C sees them, numbers as double bits); None when the text is not strict JSON or outside what can be compared
    (not UTF-8, lone surrogates, nesting beyond the limit, integers beyond the double range)"""
    if _LONG_NUMBER.search(inp):
        return None                  # parse_number copies at most 63 bytes: longer literals are split (documented limit)
    try:
        txt = inp.decode("utf-8")
        v = json.loads(txt, object_pairs_hook=lambda ps: ("o", ps), parse_constant=_no_const, parse_int=float,
                       parse_float=float)
    except (ValueError, RecursionError, _Skip):
        return None

    def cs(x):
        b = x.encode("utf-8")          # raises on lone surrogates
        k = b.find(b"\x00")
        return hx(b if k < 0 else b[:k])

    def conv(x, d):
        if x is None:
            return ("n",)
        if x is True:
            return ("t",)
        if x is False:
            return ("f",)
        if isinstance(x, (int, float)):
            f = float(x)
            return ("N", struct.unpack(">Q", struct.pack(">d", f))[0])
        if isinstance(x, str):
            return ("s", cs(x))
        if d >= limit:
            raise _Skip()            # deeper than CJSON_NESTING_LIMIT: refused by design
        if isinstance(x, list):
            return ("a", tuple(conv(y, d + 1) for y in x))
        return ("o", tuple((cs(k), conv(y, d + 1)) for k, y in x[1]))
    try:
        return conv(v, 0)
    except UnicodeEncodeError:
        return "LONE_SURROGATE"      # \\u escapes that do not form Unicode scalar values
    except (OverflowError, _Skip, RecursionError):
        return None


def strip_tokens(t):
    """dump tree -> comparable with ref_tree (numbers by bits)"""
    if t[0] == "N":
        return ("N", t[2])
    if t[0] == "a":
        return ("a", tuple(strip_tokens(x) for x in t[1]))
    if t[0] == "o":
        return ("o", tuple((k, strip_tokens(v)) for k, v in t[1]))
    return t


def tree_depth(t):
    if t[0] == "a":
        return 1 + max([tree_depth(x) for x in t[1]] or [0])
    if t[0] == "o":
        return 1 + max([tree_depth(v) for _, v in t[1]] or [0])
    return 0


# --------------------------------------------------------------------------- shrinking / classification

def shrink(inp, bad):
    """greedy byte/chunk removal keeping `bad(inp)` true"""
    cur = inp
    step = max(1, len(cur) // 2)
    budget = 400
    while step >= 1 and budget > 0:
        i = 0
        changed = False
        while i < len(cur) and budget > 0:
            cand = cur[:i] + cur[i + step:]
            budget -= 1
            if cand != cur and bad(cand):
                cur = cand
                changed = True
            else:
                i += step
        if not changed:
            step //= 2
    return cur


class Tie:
    def __init__(self, ctx, out, binp):
        self.ctx = ctx
        self.out = out
        self.binp = binp
        self.cov = {}
        self.hist = {}
        self.lines = 0
        self.diffs = 0
        self.san = 0
        self.samples = []
        self.reported = 0
        self.rt_checked = 0
        self.rt_inexact_numbers = 0
        self.rt_null_numbers = 0
        self.rt_examples = {}
        self.ref_checked = 0
        self.ref_budget = 1
        self.limit = 1000

    def one(self, line, drv_args=()):
        d, h, _ = run_both(self.binp, [line], drv_args)
        return d[0], h[0]

    def report(self, part, line, dl, hl):
        """classify one differing / aborting line"""
        self.diffs += 1
        op = line.split(" ")[0]
        if self.reported >= 6:
            return
        inp = C.unhex(line.split(" ")[-1]) if op in ("p", "s") else None
        if hl.startswith("SAN") or hl.startswith("ATEXIT"):
            small = inp
            if op == "p":
                small = shrink(inp, lambda x: self.one("p " + hx(x))[1].startswith("SAN"))
            self.reported += 1
            d2, h2 = self.one("p " + hx(small)) if op == "p" else (dl, hl)
            self.out.violation("cJSON: sanitizer report on the real parser/printer (memory safety)", {
                "property": self.out.prop_id, "component": "cjson", "part": part, "seed": C.base_seed(),
                "failing_clause": "C06: no input makes the daemon read or write memory outside live objects "
                                  "(C09: the parser must not read past `length`)",
                "script": [("p " + hx(small)) if op == "p" else line], "input_bytes": repr(small), "original_script": [line],
                "model": d2, "implementation": h2,
                "replay": "echo '<script line>' | <harness binary built by vlib/cjson_tie.py from harness/comp/cjson.c>"})
            return
        # no sanitizer report: model and code answer differently
        small_line = line
        if op == "p":
            small = shrink(inp, lambda x: not same(*self.one("p " + hx(x))))
            small_line = "p " + hx(small)
            dl, hl = self.one(small_line)
        self.reported += 1
        self.out.violation("cjson: Lean model and real cJSON.c answer differently", {
            "property": self.out.prop_id, "component": "cjson", "part": part, "seed": C.base_seed(),
            "broken": "correspondence drv_cjson (lean/Cjet/Cjson.lean) vs harness/comp/cjson.c; the theorems of "
                      "Cjet.Props.Cjson (parse_reads_in_bounds, parse_string_writes_in_bounds, nesting_bounded, "
                      "print_parse_*_roundtrip) speak about a model that is no longer the code",
            "script": [small_line], "original_script": [line], "model": dl, "implementation": hl}, no_input=True)

    def batch(self, part, lines, drv_args=(), hist=True, keep_printed=False):
        """run and compare; returns list of (line, driver line, harness line)"""
        if not lines:
            return []
        if self.san >= 40:
            # the implementation aborts all over the place: the failing inputs are reported, do not grind on
            self.cov["cjson_stopped_early_after_sanitizer_reports"] = self.san
            return []
        d, h, notes = run_both(self.binp, lines, drv_args)
        self.lines += len(lines)
        self.cov["cjson_lines_" + part] = self.cov.get("cjson_lines_" + part, 0) + len(lines)
        res = []
        for ln, dl, hl in zip(lines, d, h):
            if hl.startswith("SAN"):
                self.san += 1
            if hl.startswith("SAN") or not same(dl, hl):
                self.report(part, ln, dl, hl)
            if ln.startswith("p ") and not hl.startswith("SAN") and hl != "SKIP":
                try:
                    self.impl_clauses(part, ln, hl)
                except (IndexError, ValueError, RecursionError):
                    # the implementation's dump is not a well-formed tree (only seen with a damaged printer/dumper):
                    # the line comparison above has reported it; the clauses cannot be evaluated on it
                    self.cov["cjson_unreadable_dumps"] = self.cov.get("cjson_unreadable_dumps", 0) + 1
            if hist and ln.startswith("p "):
                k = outcome_kind(C.unhex(ln[2:]), dl)
                self.hist[k] = self.hist.get(k, 0) + 1
            res.append((ln, dl, hl))
        for ch, note in notes:
            self.report(part, ch[0] if ch else "-", "-", note + " (somewhere in a chunk of %d lines starting here)" % len(ch))
        if len(self.samples) < 12:
            self.samples += [ln for ln in lines[:: max(1, len(lines) // 3)]][:3]
        return res

    # ---- clauses on the implementation alone, per input
    def impl_clauses(self, part, ln, hl):
        inp = C.unhex(ln[2:])
        ok = hl.startswith("ok ")
        tree = None
        if ok:
            tree = parse_dump(canon_h(hl)[0].split(" ")[2:])[0]
            # the nesting limit holds on what the real parser returns
            if len(inp) > 2 * self.limit and tree_depth(tree) > self.limit:
                self.rt_fail(part, ln, hl, "nesting limit: the parser returned a tree nested %d deep (CJSON_NESTING_LIMIT = %d)" % (
                    tree_depth(tree), self.limit), clause="C06: recursion of the parser is bounded by CJSON_NESTING_LIMIT")
        # strict JSON must be read as the reference reader reads it (strings incl. every \u escape, structure, doubles)
        if self.ref_budget > 0 and len(inp) <= 4096:
            ref = ref_tree(inp, self.limit)
            if ref == "LONE_SURROGATE":
                self.ref_checked += 1
                if ok:
                    self.rt_fail(part, ln, hl, "lone / reversed / unpaired \\u surrogate accepted (would be stored as ill-formed UTF-8)",
                                 clause="C01/C02 + RFC 3629: \\uD800..DFFF escapes that do not form a surrogate pair are refused")
            elif ref is not None:
                self.ref_checked += 1
                if not ok:
                    self.rt_fail(part, ln, hl, "a strict RFC 8259 text is rejected", clause="C02: every JSON-RPC message is read")
                elif strip_tokens(tree) != ref:
                    self.rt_fail(part, ln, hl, "a strict RFC 8259 text is read differently from the reference reader "
                                 "(strings / \\u escapes / structure / doubles)",
                                 clause="C01/C02: values are what the JSON text denotes (RFC 8259 section 7/8, RFC 3629)")

    # ---- the property on the implementation alone: parse o print o parse
    def roundtrip(self, part, triples):
        first = {}
        texts = []
        for ln, dl, hl in triples:
            if not (ln.startswith("p ") and hl.startswith("ok ")):
                continue
            hc, printed = canon_h(hl)
            if printed is None or printed == "PRINTFAIL":
                if printed == "PRINTFAIL":
                    self.rt_fail(part, ln, hl, "cJSON_PrintUnformatted returned NULL for a tree the parser produced")
                continue
            toks = hc.split(" ")[2:]
            first[printed] = (ln, parse_dump(toks)[0])
            texts.append(printed)
        texts = list(dict.fromkeys(texts))
        if not texts:
            return
        lines = ["p " + t for t in texts]
        d, h, _ = run_both(self.binp, lines)
        self.lines += len(lines)
        self.cov["cjson_lines_roundtrip"] = self.cov.get("cjson_lines_roundtrip", 0) + len(lines)
        for t, ln2, dl, hl in zip(texts, lines, d, h):
            src, tree1 = first[t]
            if hl == "SKIP" or hl.startswith("SAN"):
                if hl.startswith("SAN"):
                    self.report(part + "/reparse", ln2, dl, hl)
                continue
            if not same(dl, hl):
                self.report(part + "/reparse", ln2, dl, hl)
                continue
            if not hl.startswith("ok "):
                self.rt_fail(part, src, hl, "the text cJSON printed for an accepted input is rejected by cJSON (printed %s)" % t)
                continue
            hc, printed2 = canon_h(hl)
            w = hc.split(" ")
            tree2 = parse_dump(w[2:])[0]
            self.rt_checked += 1
            changes = []
            if int(w[1]) * 2 != len(t) and t != "-":
                self.rt_fail(part, src, hl, "parsing the printed text stops before its end (printed %s)" % t)
            elif not compare_modulo_numbers(tree1, tree2, changes):
                self.rt_fail(part, src, hl, "strings / structure changed by print then parse (printed %s)" % t)
            elif not changes and printed2 != t:
                self.rt_fail(part, src, hl, "printing is not idempotent: %s then %s" % (t, printed2))
            for a, b in changes:
                nonfinite = ((a >> 52) & 0x7FF) == 0x7FF
                if b is None and nonfinite:
                    # strtod overflowed to an infinity (text like 1e999): print_number renders it as `null`
                    self.rt_null_numbers += 1
                    self.rt_examples.setdefault("nonfinite_number_printed_as_null", {"input": src, "bits": "%x" % a, "printed": t})
                else:
                    # regression of F65 (fixed): a finite double must survive print then parse bit for bit
                    self.rt_inexact_numbers += 1
                    self.rt_fail(part, src, hl, "number-print-not-bit-exact: double %x comes back as %s (printed %s)" % (
                        a, "null" if b is None else "%x" % b, t))

    def rt_fail(self, part, src_line, hl, what, clause=None):
        self.diffs += 1
        if self.reported >= 6:
            return
        self.reported += 1
        self.out.violation("cJSON: property clause fails on the real parser/printer: " + what[:90], {
            "property": self.out.prop_id, "component": "cjson", "part": part, "seed": C.base_seed(),
            "failing_clause": clause or "C01/C02: values pass through the daemon by parse then print; strings must survive "
                                        "exactly, every finite double bit for bit, the printed text must be accepted and "
                                        "consumed entirely",
            "what": what, "script": [src_line], "implementation": hl[:2000]})


# --------------------------------------------------------------------------- entry point

def run_cjson_tie(ctx, out):
    t0 = time.time()
    thorough = bool(getattr(ctx, "thorough", False))
    binp = build()
    T = Tie(ctx, out, binp)
    sys.path.insert(0, os.path.join(C.ROOT, "extract"))
    import ext_cjson
    limit, nbuf, guard = ext_cjson.values(C.REPO)
    T.cov["cjson_nesting_limit"] = limit
    T.limit = limit
    T.cov["cjson_obj_comma_guard_in_source"] = guard

    # 0. regression scenarios of repaired findings (a recurrence is an ordinary VIOLATION with that input)
    reg = []
    for path in REGRESSIONS:
        if os.path.exists(path):
            reg += [l.strip() for l in open(path) if l.strip() and not l.startswith("#")]
    T.batch("regressions", reg)
    T.cov["cjson_regression_lines"] = len(reg)

    # 1. directed
    dire = list(dict.fromkeys(directed(limit)))
    tr = T.batch("directed", ["p " + hx(b) for b in dire])
    T.roundtrip("directed", tr)
    one_two = [bytes([a]) for a in range(256)] + [bytes([a, b]) for a in range(256) for b in range(256)]
    T.batch("all_1_2_byte_inputs", ["p " + hx(b) for b in one_two])
    tr = T.batch("all_u_escapes", ["p " + hx(b) for b in u_escape_all()])
    T.roundtrip("all_u_escapes", tr[::16] if not thorough else tr)
    r = C.rng("cjson", "pairs")
    tr = T.batch("surrogate_pairs", ["p " + hx(b) for b in surrogate_pairs(r, 6000, thorough)])
    T.roundtrip("surrogate_pairs", tr[:: (64 if thorough else 4)])
    T.cov["cjson_surrogate_pairs_complete"] = thorough

    # 2. exhaustive over the reduced alphabet
    maxlen = 6 if thorough else 5
    n_ex = 0
    buf = []
    acc_for_rt = []
    for b in exhaustive(maxlen):
        buf.append("p " + hx(b))
        if len(buf) >= 8 * CHUNK:
            tr = T.batch("exhaustive", buf)
            acc_for_rt += [x for x in tr if x[2].startswith("ok ")][::50]
            n_ex += len(buf)
            buf = []
    tr = T.batch("exhaustive", buf)
    acc_for_rt += [x for x in tr if x[2].startswith("ok ")][::50]
    n_ex += len(buf)
    T.roundtrip("exhaustive", acc_for_rt)
    T.cov["cjson_exhaustive_strings"] = n_ex
    T.cov["cjson_exhaustive_rule"] = "every byte string of length <= %d over the %d bytes %s" % (
        maxlen, len(ALPHABET), " ".join("%02x" % a for a in ALPHABET))

    # 3. random trees, serialised, mutated
    n_rand = 20000 if thorough else 3000
    docs = []
    trees = []
    for i in range(n_rand):
        r = C.rng("cjson", "tree", i)
        t = rand_tree(r, r.choice([1, 2, 3, 4, 6]))
        txt = ser(r, t)
        docs.append(txt)
        trees.append(t)
    lines = []
    for i, txt in enumerate(docs):
        r = C.rng("cjson", "mut", i)
        lines.append("p " + hx(txt))
        other = docs[r.randrange(len(docs))]
        for _ in range(4):
            m = mutate(r, txt, other)
            if r.random() < 0.3:
                m = mutate(r, m, other)
            lines.append("p " + hx(m))
    lines = list(dict.fromkeys(lines))
    tr = T.batch("random_mutated", lines)
    T.roundtrip("random_mutated", tr)
    T.cov["cjson_random_documents"] = n_rand
    T.cov["cjson_random_mutants"] = len(lines) - n_rand

    # 4. parse_string alone
    sl = []
    for i in range(8000 if thorough else 1500):
        r = C.rng("cjson", "str", i)
        pre = bytes(r.choice([0x20, 0x22, 0x5C, 0x61]) for _ in range(r.choice([0, 0, 1, 2, 5])))
        body = ser_string(r, rand_string(r, nul=True))
        if r.random() < 0.6:
            body = mutate(r, body, b'\\u000\\"\\\\ud800\\udc00"')
        tail = bytes(r.choice([0x22, 0x5C, 0x20, 0x61, 0x75]) for _ in range(r.choice([0, 0, 1, 3])))
        buf_ = pre + body + tail
        if len(pre) < len(buf_):
            sl.append("s %d %s" % (len(pre), hx(buf_)))
    for b in dire:
        if b[:1] == b'"':
            sl.append("s 0 " + hx(b))
    T.batch("parse_string", list(dict.fromkeys(sl)), hist=False)

    # 5. printer: random trees with the implementation's own number texts
    ptrees = []
    bits = set()
    for i in range(6000 if thorough else 1200):
        r = C.rng("cjson", "ptree", i)
        t = rand_tree(r, r.choice([0, 1, 2, 3, 5]))
        ptrees.append(t)
        tree_bits(t, bits)
    bits = sorted(bits)
    hn = run_harness_chunk(binp, ["n %x" % b for b in bits])
    numtext = {}
    for b, l in zip(bits, hn):
        if l.startswith("ok "):
            numtext[b] = C.unhex(l[3:])
        else:
            T.report("printer/number", "n %x" % b, "-", l)
            numtext[b] = b"0"
    wl = ["w " + " ".join(tok_tree(t, numtext)) for t in ptrees]
    wl += ["w s" + hx(bytes([c])) for c in range(1, 256)] + ["w s-", "w o1 - s-", "w a0", "w o0", "w a1 a1 a0"]
    wl += ["w " + "a1 " * k + "a0" for k in (limit - 1, limit, limit + 1)]
    # every one-byte fragment of the printer ('[', ']', '{', '}', ':', ',', the quotes) at every offset around the sizes the
    # print buffer grows through (256, 512, 1024): a string of L bytes in front of an array / object / member
    lens = range(0, 1100) if thorough else sorted(set(list(range(0, 1100, 7)) + list(range(236, 272)) + list(range(492, 528)) + list(range(1004, 1040))))
    for L in lens:
        xs = hx(b"x" * L) if L else "-"
        wl += ["w a2 s%s a0" % xs, "w o2 6b s%s 61 a0" % xs, "w o1 %s o0" % xs, "w a3 s%s o1 61 t a1 n" % xs]
    tw = T.batch("printer", list(dict.fromkeys(wl)), hist=False)
    # what was printed must parse back (both sides), consumed entirely
    back = ["p " + l[2][3:] for l in tw if l[2].startswith("ok ")]
    tr = T.batch("printer_reparse", list(dict.fromkeys(back)))
    T.roundtrip("printer_reparse", tr)
    # number tokens: the double the driver computes for the token the implementation consumed (strtod oracle cross-check)
    T.cov["cjson_number_oracle_texts"] = len(bits)

    # 6. numbers: print_number then parse_number on the implementation, bit for bit (F65 regression)
    nb = set()
    for txt in ("0.3", "0.1", "0.2", "1", "100", "0.7", "1e21", "1e22", "1e-7", "123456.789", "5e-324", "2.2250738585072014e-308",
                "1.7976931348623157e308", "4503599627370496", "9007199254740992", "0.5", "3.141592653589793", "2147483647",
                "1e15", "1e16", "1e17", "0.000001", "299792458", "6.02214076e23", "1.5", "-0.0", "0.0", "-1", "255", "65536"):
        v = float(txt)
        b0 = struct.unpack(">Q", struct.pack(">d", v))[0]
        for d in (-2, -1, 0, 1, 2):
            x = b0 + d
            if 0 <= x < (1 << 64) and ((x >> 52) & 0x7FF) != 0x7FF:
                nb.add(x)
                nb.add(x ^ (1 << 63))
    for i in range(20000 if thorough else 3000):
        r = C.rng("cjson", "dbl", i)
        x = rand_double_bits(r)
        if ((x >> 52) & 0x7FF) != 0x7FF:
            nb.add(x)
    nb = sorted(nb)
    hn = run_harness_chunk(binp, ["n %x" % b for b in nb])
    T.lines += len(nb)
    tok_re = re.compile(rb"^-?[0-9]+(\.[0-9]+)?(e[+-][0-9]+)?$")
    plines = []
    bad_shape = 0
    for b, l in zip(nb, hn):
        if not l.startswith("ok "):
            T.report("numbers", "n %x" % b, "-", l)
            continue
        txt = C.unhex(l[3:])
        if not tok_re.match(txt) or len(txt) > 25:
            bad_shape += 1
            T.rt_fail("numbers", "n %x" % b, l, "print_number's text %r for the finite double %x is not a plain number token" % (txt, b))
        plines.append(("p " + hx(txt), b))
    tr = T.batch("numbers", [x[0] for x in plines])
    for (ln, b), (_, dl, hl) in zip(plines, tr):
        if hl.startswith("ok "):
            w = canon_h(hl)[0].split(" ")
            got = parse_dump(w[2:])[0]
            if got[0] != "N" or got[2] != b or int(w[1]) * 2 != len(ln) - 2:
                T.rt_inexact_numbers += 1
                T.rt_fail("numbers", "n %x" % b, hl, "number-print-not-bit-exact: print_number(%x) = %s parses back as %s" % (b, ln[2:], hl))
        elif not hl.startswith("SAN"):
            T.rt_fail("numbers", "n %x" % b, hl, "the text print_number produced for %x (%s) is rejected by the parser" % (b, ln[2:]))
    T.cov["cjson_number_doubles_checked_bit_exact"] = len(nb)

    T.cov.update({
        "cjson_lines_total": T.lines,
        "cjson_disagreements": T.diffs,
        "cjson_sanitizer_reports": T.san,
        "cjson_outcome_histogram": dict(sorted(T.hist.items())),
        "cjson_strict_json_texts_compared_with_reference_reader": T.ref_checked,
        "cjson_roundtrip_texts_checked": T.rt_checked,
        "cjson_roundtrip_numbers_not_bit_exact": T.rt_inexact_numbers,
        "cjson_roundtrip_nonfinite_numbers_printed_as_null": T.rt_null_numbers,
        "cjson_roundtrip_number_examples": T.rt_examples,
        "cjson_samples": T.samples[:9],
        "cjson_wall_s": round(time.time() - t0, 1),
    })
    out.coverage.update(T.cov)
    out.coverage["exhaustive"] = {"cjson_reduced_alphabet_len_le_%d" % maxlen: True}
    out.coverage["traces_validated_against_impl"] = out.coverage.get("traces_validated_against_impl", 0) + T.lines
    out.coverage["evaluations"] = out.coverage.get("evaluations", 0) + T.lines
    for a in ("cjson: strtod/sprintf of the C library are oracles (the model keeps the number token; the driver's exact decimal "
              "conversion is compared with the implementation's double bit for bit)",
              "cjson: malloc never fails in the tie (allocation failure paths of cJSON are C15 territory)"):
        if a not in out.assumptions:
            out.assumptions.append(a)
    return T.cov
