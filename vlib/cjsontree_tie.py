"""Correspondence between the Lean model `Cjet.Cjson.TreeOps` (driver `drv_cjsontree`) and the REAL tree layer of
/repo/src/json/cJSON.c (harness/comp/cjsontree.c): cJSON_Duplicate / cJSON_Delete under every allocation-failure
schedule, get_object_item (both comparisons), cJSON_GetArraySize / cJSON_GetArrayItem.

    run_cjsontree_tie(ctx, out) -> dict      (called from the C03 and C15 checks and from cjsontree_dev)

Scripts: a directed corpus (every kind, flag bits, NULL / empty strings, chains, nesting) plus seeded random items; for
EVERY item the all-succeed copy and every single failing allocation index 0..allocs (complete), thorough: every pair,
plus random multi-failure schedules; lookups with keys drawn from the member names in every ASCII case variant,
near-misses, absent keys, nameless children.  Both sides print the same lines; they are compared line by line.

Independently of the model every implementation line is judged by property clauses (Python, written from the property
text, own allocation count):
  copy     a successful copy equals the original with the reference bit cleared, field for field, child for child
  ledger   a successful copy made exactly `allocs` calls, holds exactly that many blocks and cJSON_Delete returns all
  leak     a failed copy holds nothing (live = 0)
  first    a copy fails iff a call it makes is scheduled to fail, and stops at the first such call
  attach   add_item_to_object appends the item under the new name (constant bit as asked); when the key copy fails nothing
           has changed and the item is still the caller's (ignoring that result is known finding F60)
  replace  ReplaceItemInObject replaces the first member answering to the key in place, under that key; when the key copy
           fails or no member answers nothing in the object changes and the replacement stays with the caller
  lookup   GetObjectItem finds the first member whose name equals the key under ASCII case folding, else NULL
  memory   no sanitizer report
A failing clause is a VIOLATION with the failing input; a mere model/code difference is reported with no_input=True
naming the theorems that no longer describe the code.  Coverage keys are prefixed `cjsontree_`."""
import os
import time

from vlib import common as C

THEOREMS = {
    "copy": ["duplicate_is_faithful_copy", "duplicate_exact_without_references"],
    "ledger": ["duplicate_is_faithful_copy"],
    "leak": ["duplicate_failure_leaks_nothing"],
    "first": ["duplicate_stops_at_first_failure", "duplicate_succeeds_when_allocations_do"],
    "lookup": ["get_object_item_first_hit", "get_object_item_ci_none_iff"],
    "attach": ["add_member_attaches_last", "add_member_failure_changes_nothing", "add_member_conserves_blocks"],
    "replace": ["replace_checked_failure_changes_nothing", "replace_success_in_place", "replace_unchecked_failure_strips_the_name"],
    "memory": ["(memory safety: sanitizer)"],
}
ALL_THEOREMS = sorted({t for v in THEOREMS.values() for t in v if not t.startswith("(")})


CHECKED = [False]        # does replace_item_in_object inspect its key copy?  observed on the implementation before the scripts are written


class Item:
    __slots__ = ("kind", "ref", "const", "vint", "vdbl", "vstr", "name", "kids")

    def __init__(self, kind, ref=False, const=False, vint=0, vdbl=0, vstr=None, name=None, kids=()):
        self.kind, self.ref, self.const, self.vint, self.vdbl, self.vstr, self.name, self.kids = \
            kind, ref, const, vint, vdbl, vstr, name, list(kids)

    def toks(self, clear_ref=False):
        fl = (0 if clear_ref else int(self.ref)) + 2 * int(self.const)
        t = ["I", str(self.kind), str(fl), str(self.vint), "%x" % self.vdbl, opt(self.vstr), opt(self.name), str(len(self.kids))]
        for k in self.kids:
            t += k.toks(clear_ref)
        return t

    def text(self):
        return " ".join(self.toks())

    def allocs(self):
        return 1 + (self.vstr is not None) + (self.name is not None and not self.const) + sum(k.allocs() for k in self.kids)

    def flat_allocs(self):
        return 1 + (self.vstr is not None) + (self.name is not None and not self.const)


def opt(b):
    if b is None:
        return "~"
    return b.hex() if b else "-"


KINDS = [1, 2, 4, 8, 16, 32, 64, 128]
NAMES = [b"path", b"Path", b"PATH", b"value", b"id", b"ID", b"method", b"params", b"a", b"A", b"[", b"{", b"@", b"`", b"z", b"Z",
         b"\xc3\xa4", b"\xc3\x84", b"timeout", b"", b"pa", b"paths"]


def rand_item(r, depth, named, top=False):
    kind = r.choice([64, 64, 32] + KINDS) if top else r.choice(KINDS)
    vstr = None
    if kind in (16, 128) or r.random() < 0.1:
        vstr = bytes(r.randrange(1, 256) for _ in range(r.choice([0, 1, 3, 8])))
    name = None
    if named and r.random() < 0.9 or r.random() < 0.05:
        name = r.choice(NAMES) if r.random() < 0.8 else bytes(r.randrange(1, 256) for _ in range(r.randrange(0, 5)))
    kids = []
    if kind in (32, 64) and depth > 0:
        for _ in range(r.choice([0, 1, 2, 2, 3, 5])):
            kids.append(rand_item(r, depth - 1, kind == 64))
    return Item(kind, r.random() < 0.15, name is not None and r.random() < 0.15, r.randrange(-2 ** 31, 2 ** 31) if r.random() < 0.5 else 0,
                r.getrandbits(64) if r.random() < 0.5 else 0, vstr, name, kids)


def directed_items():
    leaf = lambda **kw: Item(4, **kw)
    out = [Item(k) for k in KINDS]
    out += [Item(16, vstr=b"x"), Item(16, vstr=b""), Item(16, vstr=b"x", name=b"n"), Item(16, vstr=b"x", name=b"n", const=True),
            Item(8, vint=7, vdbl=0x401C000000000000), Item(8, vint=-1, vdbl=0xBFF0000000000000, ref=True),
            Item(64, kids=[leaf(name=b"a"), leaf(name=b"b"), leaf(name=b"c")]),
            Item(64, ref=True, kids=[leaf(name=b"a", const=True), Item(32, name=b"l", ref=True, kids=[leaf(), leaf(), Item(16, vstr=b"s")])]),
            Item(32, kids=[Item(32, kids=[Item(32, kids=[Item(32, kids=[Item(16, vstr=b"deep")])])])]),
            Item(64, kids=[Item(64, name=b"o", kids=[Item(16, name=b"k", vstr=b"v")]), Item(16, name=b"last", vstr=b"v")]),
            Item(32, kids=[leaf() for _ in range(12)])]
    return out


def key_variants(r, name):
    vs = {name, name.lower(), name.upper(), name.swapcase()}
    if name:
        vs.add(name[:-1])
        vs.add(name + b"x")
        i = r.randrange(len(name))
        vs.add(name[:i] + bytes([name[i] ^ 0x20]) + name[i + 1:])     # flips case for letters, another byte for @ [ ` {
    return [v for v in vs if 0 not in v]


def plain(it):
    return not it.ref and not it.const and all(plain(k) for k in it.kids)


def fold(b):
    return bytes(c + 32 if 0x41 <= c <= 0x5A else c for c in b)


def ref_lookup(cs, key, kids):
    for j, k in enumerate(kids):
        if k.name is None:
            if cs:
                return None
            continue
        if (k.name == key) if cs else (fold(k.name) == fold(key)):
            return j
    return None


def build():
    return C.cc_build("cjsontree", [os.path.join(C.ROOT, "harness", "comp", "cjsontree.c")])


def driver_usable(ctx):
    drv = C.drv_path("cjsontree")
    if not os.path.exists(drv):
        return False
    if getattr(ctx, "lean_ok", True):
        return True
    try:
        srcs = [os.path.join(C.LEAN, *p) for p in (("Cjet", "Cjson", "TreeOps.lean"), ("Cjet", "Drv", "Cjsontree.lean"), ("DrvCjsontree.lean",))]
        return os.path.getmtime(drv) >= max(os.path.getmtime(p) for p in srcs)
    except OSError:
        return False


def probe_checked(binp):
    rc, o, e = C.sh([binp], inp=b"R 0 0 61 I 64 0 0 0 ~ ~ 1 I 4 0 0 0 ~ 61 0 I 4 0 0 0 ~ ~ 0\n")
    return o.startswith("FAIL")


def judge(op, hl):
    """property clauses on one implementation line -> list of failing clause names"""
    bad = []
    kind = op[0]
    if kind in ("D", "F", "S"):
        _, fails, it = op
        n = it.allocs() if kind == "D" else it.flat_allocs()
        first = min([f for f in fails if f < n], default=None)
        w = hl.split()
        if not w:
            return ["memory"]
        if w[0] == "NULL":
            kv = dict(x.split("=") for x in w[1:])
            if int(kv.get("live", -1)) != 0:
                bad.append("leak")
            if first is None or int(kv.get("next", -1)) != first + 1:
                bad.append("first")
        elif w[0] == "ok":
            kv = dict(x.split("=") for x in w[-3:])
            body = w[1:-3]
            if kind == "D":
                exp = it.toks(clear_ref=True)
            else:
                exp = Item(it.kind, False, it.const, it.vint, it.vdbl, it.vstr, it.name).toks()
            if body != exp:
                bad.append("copy")
            if not (int(kv.get("next", -1)) == n and int(kv.get("live", -1)) == n and int(kv.get("del", -1)) == n):
                bad.append("ledger")
            if first is not None:
                bad.append("first")
        else:
            bad.append("memory")
    elif kind == "O":
        _, fl, ck, key, obj, new = op
        parts = [x.strip() for x in hl.split("|")]
        w = parts[0].split()
        if len(parts) != 3 or not w:
            return ["memory"]
        kv = dict(x.split("=") for x in w[1:])
        must_fail = (not ck) and 0 in fl
        owned_old = new.name is not None and not new.const
        if must_fail:
            # nothing changed, nothing taken, the item is still the caller's
            if not (w[0] == "FAIL" and parts[1].split() == obj.toks() and parts[2].split() == ["orphan"] + new.toks() and int(kv["live"]) == 1000):
                bad.append("attach")
        else:
            att = Item(new.kind, new.ref, ck, new.vint, new.vdbl, new.vstr, key, new.kids)
            exp = Item(obj.kind, obj.ref, obj.const, obj.vint, obj.vdbl, obj.vstr, obj.name, obj.kids + [att])
            if not (w[0] == "ok" and parts[1].split() == exp.toks() and parts[2] == "attached"):
                bad.append("attach")
            if int(kv["live"]) != 1000 + (0 if ck else 1) - (1 if owned_old else 0):
                bad.append("ledger")
    elif kind == "R":
        _, fl, key, obj, new = op
        parts = [x.strip() for x in hl.split("|")]
        w = parts[0].split()
        if len(parts) != 3 or not w:
            return ["memory"]
        kv = dict(x.split("=") for x in w[1:])
        j = ref_lookup(False, key, obj.kids)
        copy_fails = 0 in fl
        owned_old = new.name is not None and not new.const
        if copy_fails or j is None:
            # nothing in the object may change; the replacement stays with the caller
            if not (w[0] == "FAIL" and parts[1].split() == obj.toks() and parts[2].startswith("orphan")):
                bad.append("replace")
        else:
            rep = Item(new.kind, new.ref, False, new.vint, new.vdbl, new.vstr, key, new.kids)
            kids = list(obj.kids)
            old = kids[j]
            kids[j] = rep
            exp = Item(obj.kind, obj.ref, obj.const, obj.vint, obj.vdbl, obj.vstr, obj.name, kids)
            if not (w[0] == "ok" and parts[1].split() == exp.toks() and parts[2] == "consumed"):
                bad.append("replace")
            elif int(kv["live"]) != 1000 + 1 - (1 if owned_old else 0) - old.allocs():
                bad.append("ledger")
    elif kind == "G":
        _, cs, key, it = op
        exp = ref_lookup(cs, key, it.kids)
        if not cs and hl.strip() != ("none" if exp is None else "some %d" % exp):
            bad.append("lookup")
    return bad


def op_line(op):
    if op[0] in ("D", "F"):
        return "%s %s %s" % (op[0], ",".join(map(str, op[1])) if op[1] else "-", op[2].text())
    if op[0] == "G":
        return "G %d %s %s" % (int(op[1]), op[2].hex() if op[2] else "-", op[3].text())
    if op[0] == "S":
        return "S %s %s" % (",".join(map(str, op[1])) if op[1] else "-", op[2].vstr.hex() if op[2].vstr else "-")
    if op[0] == "R":
        return "R %s %d %s %s %s" % (",".join(map(str, op[1])) if op[1] else "-", int(CHECKED[0]), op[2].hex() if op[2] else "-", op[3].text(), op[4].text())
    if op[0] == "O":
        return "O %s %d %s %s %s" % (",".join(map(str, op[1])) if op[1] else "-", int(op[2]), op[3].hex() if op[3] else "-", op[4].text(), op[5].text())
    return "A %d %s" % (op[1], op[2].text())


def run_cjsontree_tie(ctx, out):
    t0 = time.time()
    cov = out.coverage
    thorough = bool(getattr(ctx, "thorough", False))
    binp = build()
    have_model = driver_usable(ctx)
    if not have_model:
        out.notes.append("cjsontree: model driver not available or stale (Lean build failed): property clauses are evaluated on the implementation only")
    CHECKED[0] = probe_checked(binp)
    cov["cjsontree_replace_key_copy_checked_in_source"] = CHECKED[0]
    r = C.rng("cjsontree")
    items = directed_items()
    n_rand = 1200 if thorough else 300
    for _ in range(n_rand):
        items.append(rand_item(r, r.choice([1, 2, 3, 4]), r.random() < 0.5, top=True))
    ops = []
    pairs = 0
    for it in items:
        n = it.allocs()
        for f in range(n + 1):                       # f = n: a failure behind the last call it makes -> must succeed
            ops.append(("D", (f,), it))
        ops.append(("D", (), it))
        if thorough and n <= 24:
            for f in range(n):
                for g in range(f + 1, n + 1):
                    ops.append(("D", (f, g), it))
                    pairs += 1
        for _ in range(3 if thorough else 1):
            ops.append(("D", tuple(sorted(r.sample(range(n + 3), min(n + 3, r.choice([2, 3, 5]))))), it))
        for f in range(it.flat_allocs() + 1):
            ops.append(("F", (f,), it))
        ops.append(("F", (), it))
        names = [k.name for k in it.kids if k.name is not None]
        keys = {b"absent", b""}
        for nm in names:
            keys.update(key_variants(r, nm))
        for key in sorted(keys):
            for cs in (False, True):
                ops.append(("G", cs, key, it))
        if it.kind == 64 and not it.ref:
            for _ in range(2):
                new = rand_item(r, 1, True)
                key = r.choice(NAMES)
                for ck in (False, True):
                    for fl in ((), (0,), (1,)):
                        ops.append(("O", fl, ck, key, it, new))
        if it.kind == 64 and not it.ref and all(plain(k) for k in it.kids):
            for _ in range(2):
                new = rand_item(r, 1, True)
                for key in sorted({r.choice(NAMES)} | {(k.name or b"x").swapcase() for k in it.kids[:3]}):
                    if 0 in key:
                        continue
                    for fl in ((), (0,), (1,)):
                        ops.append(("R", fl, key, it, new))
        for idx in (-1, 0, len(it.kids) - 1, len(it.kids), len(it.kids) + 1):
            ops.append(("A", idx, it))
    for txt in [b"", b"x", b"$1$salt$hash"] + [bytes(r.randrange(1, 256) for _ in range(r.randrange(1, 40))) for _ in range(20)]:
        for fl in ((), (0,), (1,), (2,), (0, 1)):
            ops.append(("S", fl, Item(16, vstr=txt)))
    text = "\n".join(op_line(o) for o in ops) + "\n"
    rc, hout, herr = C.sh([binp], inp=text.encode(), timeout=900)
    hl = hout.splitlines()
    stats = {"diffs": 0, "clause_fail": 0}
    fails, diffs = [], []
    if rc != 0 or len(hl) != len(ops):
        fails.append((["memory"], ops[min(len(hl), len(ops) - 1)], "harness ended early rc=%d after %d of %d lines: %s" % (rc, len(hl), len(ops), herr[-600:])))
    dl = C.run_drv("cjsontree", text) if have_model else None
    hist = {}
    for i, o in enumerate(ops[:len(hl)]):
        bad = judge(o, hl[i])
        key = o[0] + (":" + hl[i].split()[0] if hl[i].split() else "")
        hist[key] = hist.get(key, 0) + 1
        if bad:
            fails.append((bad, o, hl[i]))
        if dl is not None and i < len(dl) and dl[i].strip() != hl[i].strip():
            diffs.append((o, dl[i], hl[i]))
    cov.update({
        "cjsontree_items": len(items), "cjsontree_items_random": n_rand, "cjsontree_ops": len(ops), "cjsontree_outcomes": hist,
        "cjsontree_single_failure_indices": "every allocation index 0..allocs of every item (complete)",
        "cjsontree_failure_pairs": pairs if thorough else "thorough tier only",
        "cjsontree_max_allocs": max(it.allocs() for it in items),
        "cjsontree_lines_compared_with_model": len(dl) if dl is not None else 0,
        "cjsontree_model_diffs": len(diffs), "cjsontree_clause_failures": len(fails),
        "cjsontree_traces_validated_against_impl": len(hl), "cjsontree_wall_s": round(time.time() - t0, 1),
    })
    if fails:
        fails.sort(key=lambda x: (x[2].startswith("harness ended early"), len(op_line(x[1]))))   # a leak report at exit names no input: last
        clause, o, got = fails[0]
        obj = {"component": "cjsontree", "clauses": clause, "script": op_line(o), "implementation": got,
               "theorems": sorted({t for c in clause for t in THEOREMS.get(c, [])}),
               "how": "echo '<script>' | <harness built from harness/comp/cjsontree.c>; python3 -c 'from vlib import cjsontree_tie' judge()",
               "failing_lines": len(fails)}
        out.violation("cJSON tree layer: property clause fails on the implementation (%s): %s -> %s" % (",".join(clause), op_line(o)[:200], got[:200]), obj)
    elif diffs:
        diffs.sort(key=lambda x: len(op_line(x[0])))
        o, d, h = diffs[0]
        obj = {"component": "cjsontree", "script": op_line(o), "model": d, "implementation": h, "theorems_no_longer_describing_the_code": ALL_THEOREMS,
               "differing_lines": len(diffs)}
        out.violation("cJSON tree layer: model and implementation differ (no property clause fails on the inputs tried)", obj, no_input=True)
    return {"fails": len(fails), "diffs": len(diffs)}


def replay(d):
    binp = build()
    rc, hout, herr = C.sh([binp], inp=(d["script"] + "\n").encode())
    print("implementation:", hout.strip(), herr[-300:])
    try:
        print("model:         ", "\n".join(C.run_drv("cjsontree", d["script"] + "\n")))
    except Exception as e:                               # noqa
        print("model: n/a", e)
    return 0
