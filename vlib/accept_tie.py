"""Correspondence between the Lean model `Cjet.Accept` (driver `drv_accept`) and the REAL acceptance
path of /repo/src/linux/linux_io.c (harness/comp/accept.c), plus the property clauses evaluated on the
implementation's own traces.

    run_accept_tie(ctx, out) -> dict        (called from the C07 / C11 checks and from accept_dev)

Scripts (one operation per line, see lean/Cjet/Drv/Accept.lean): directed corpus first, then the complete
enumeration of single and double fault sites of a three-connection call, then structured random scripts
from C.rng("accept", i).  Both sides print the same observation lines; they are compared line by line.

Independently of the model every implementation trace is judged by the property clauses (Python
reference, written from the property texts, not from the model):
  fd        every accepted descriptor is closed exactly once or handed to exactly one peer, never both,
            never used/closed when not in flight, never left open; records freed exactly once on failure paths
  listener  EL_ABORT_LOOP iff accept returned an errno that says the listening socket is unusable
            (EBADF EINVAL ENOTSOCK EOPNOTSUPP EFAULT); ECONNABORTED / EINTR never end the call; a
            successful accept never ends the call; the call ends when the queue is empty (no spinning)
  local     for AF_INET / AF_INET6 origins the local bit is true iff the address is 127.0.0.1, ::1 or
            ::ffff:127.0.0.1; the created peer is of the listener's kind
  start     start_server leaves the listener registered iff it reports success
A failing clause is a VIOLATION with the failing input; a mere model/code difference (no clause fails on
any input found) is reported with no_input=True naming the theorems that no longer describe the code.
Coverage keys are prefixed `accept_`."""
import concurrent.futures
import importlib.util
import os
import time

from vlib import common as C

WRAP = ["-Wl,--wrap=accept,--wrap=fcntl,--wrap=getsockname,--wrap=setsockopt,--wrap=close"]
STEPS = "gsndivckpbt"       # fault letters in program order
STEP_NAMES = {"g": "F_GETFL", "s": "F_SETFL", "n": "getsockname", "d": "TCP_NODELAY", "i": "TCP_KEEPIDLE",
              "v": "TCP_KEEPINTVL", "c": "TCP_KEEPCNT", "k": "SO_KEEPALIVE", "p": "alloc peer/connection",
              "b": "buffered_socket_acquire", "t": "init peer/connection"}
SPEC_FATAL_NAMES = ["EBADF", "EINVAL", "ENOTSOCK", "EOPNOTSUPP", "EFAULT"]
SPEC_RETRY_NAMES = ["ECONNABORTED", "EINTR"]
MAX_PAR = 6

THEOREMS_BY_CLAUSE = {
    "fd": ["fd_closed_or_owned_exactly_once", "fd_discipline_monitor", "no_leak_of_peer_or_bs", "init_failure_releases_both"],
    "listener": ["listener_survives_transient", "abort_only_on_fatal", "fatal_class_exact", "retry_class_exact",
                 "retry_class_continues_accepting", "loop_terminates_when_queue_drains"],
    "local": ["local_bit_exact", "local_bit_other_families", "local_bit_unix_unnamed"],
    "start": ["start_server_unwinds", "stop_server_closes_listener"],
    "memory": ["(memory safety: sanitizer)"],
}


def _ext():
    p = os.path.join(C.ROOT, "extract", "ext_accept.py")
    spec = importlib.util.spec_from_file_location("ext_accept_for_tie", p)
    mod = importlib.util.module_from_spec(spec)
    spec.loader.exec_module(mod)
    return mod


_consts = None


def consts():
    """errno table and address families of the system headers (the ones the harness is compiled with)."""
    global _consts
    if _consts is None:
        ext = _ext()
        tab = ext.errno_table()
        mac = ext.macros()
        _consts = {"errno": tab, "AF_UNIX": mac["AF_UNIX"], "AF_INET": mac["AF_INET"], "AF_INET6": mac["AF_INET6"],
                   "fatal": {tab[n] for n in SPEC_FATAL_NAMES}, "retry": {tab[n] for n in SPEC_RETRY_NAMES}}
    return _consts


# --------------------------------------------------------------------------- scripts

class Conn:
    __slots__ = ("fd", "fam", "sa", "gsfam", "faults")

    def __init__(self, fd, fam, sa=b"", gsfam=None, faults=""):
        self.fd, self.fam, self.sa, self.faults = fd, fam, bytes(sa), faults
        self.gsfam = fam if gsfam is None else gsfam

    def tok(self):
        return "C%d:%d:%s:%d:%s" % (self.fd, self.fam, C.hexs(self.sa), self.gsfam, self.faults or "-")

    def copy(self, **kw):
        c = Conn(self.fd, self.fam, self.sa, self.gsfam, self.faults)
        for k, v in kw.items():
            setattr(c, k, v)
        return c


class Script:
    """one operation: op in call|start|stop|islocal"""
    __slots__ = ("op", "kind", "l", "addok", "answers", "fam", "sa", "tag")

    def __init__(self, op, kind="jet", l=3, addok=1, answers=(), fam=0, sa=b"", tag=""):
        self.op, self.kind, self.l, self.addok, self.answers = op, kind, l, addok, list(answers)
        self.fam, self.sa, self.tag = fam, bytes(sa), tag

    def line(self):
        if self.op == "islocal":
            return "islocal %d %s" % (self.fam, C.hexs(self.sa))
        if self.op == "stop":
            return "stop %d" % self.l
        toks = [a.tok() if isinstance(a, Conn) else "E%d" % a for a in self.answers]
        if self.op == "start":
            return " ".join(["start", self.kind, str(self.l), str(self.addok)] + toks)
        return " ".join(["call", self.kind, str(self.l)] + toks)

    def with_answers(self, answers):
        return Script(self.op, self.kind, self.l, self.addok, answers, self.fam, self.sa, self.tag)


def sa_in(addr4, port=b"\x1f\x90"):
    return port + bytes(addr4) + bytes(8)


def sa_in6(addr16, port=b"\x1f\x90", flow=bytes(4), scope=bytes(4)):
    return port + flow + bytes(addr16) + scope


V4_LOCAL = bytes([127, 0, 0, 1])
V6_LOCAL = bytes(15) + b"\x01"
V6_MAPPED = bytes(10) + b"\xff\xff" + V4_LOCAL


def named_addresses():
    c = consts()
    i4, i6, ux = c["AF_INET"], c["AF_INET6"], c["AF_UNIX"]
    return [
        ("127.0.0.1", i4, sa_in(V4_LOCAL)), ("127.0.0.2", i4, sa_in([127, 0, 0, 2])), ("127.1.0.1", i4, sa_in([127, 1, 0, 1])),
        ("126.0.0.1", i4, sa_in([126, 0, 0, 1])), ("10.0.0.1", i4, sa_in([10, 0, 0, 1])), ("0.0.0.0", i4, sa_in([0, 0, 0, 0])),
        ("127.0.0.1 port 1", i4, sa_in(V4_LOCAL, b"\x00\x01")),
        ("::1", i6, sa_in6(V6_LOCAL)), ("::2", i6, sa_in6(bytes(15) + b"\x02")), ("::", i6, sa_in6(bytes(16))),
        ("::ffff:127.0.0.1", i6, sa_in6(V6_MAPPED)), ("::ffff:127.0.0.2", i6, sa_in6(bytes(10) + b"\xff\xff\x7f\x00\x00\x02")),
        ("::ffff:10.0.0.1", i6, sa_in6(bytes(10) + b"\xff\xff\x0a\x00\x00\x01")), ("::7f00:1 (compat)", i6, sa_in6(bytes(12) + V4_LOCAL)),
        ("fe80::1", i6, sa_in6(b"\xfe\x80" + bytes(13) + b"\x01", scope=b"\x02\x00\x00\x00")),
        ("::1 with flow label", i6, sa_in6(V6_LOCAL, flow=b"\x00\x0f\xff\xff")),
        ("1::1", i6, sa_in6(b"\x00\x01" + bytes(13) + b"\x01")),
        ("unix unnamed", ux, b""), ("unix pathname", ux, b"/tmp/some/client/socket/path-0123456789\x00"),
        ("unix short pathname", ux, b"/tmp/x\x00"),
        ("unix abstract spelling ::1", ux, b"\x00xxxxx" + bytes(15) + b"\x01"),
        ("unix abstract spelling ::ffff:127.0.0.1", ux, b"\x00xxxxx" + V6_MAPPED),
        ("unix abstract other", ux, b"\x00cjet-client-0123456789abcdef"),
        ("family 0 with ::1 bytes", 0, sa_in6(V6_LOCAL)), ("family 17 zero", 17, bytes(18)),
        ("inet with v6 loopback layout", i4, sa_in6(V6_LOCAL)), ("inet truncated", i4, b"\x1f\x90\x7f"),
        ("inet6 truncated", i6, sa_in6(V6_LOCAL)[:21]),
    ]


def directed_corpus():
    c = consts()
    i4, i6, ux = c["AF_INET"], c["AF_INET6"], c["AF_UNIX"]
    out = []
    ok4 = lambda fd: Conn(fd, i4, sa_in([192, 168, 1, 9]))   # noqa: E731
    # every errno number of <errno.h> (and a few that are none): alone, and between two connections
    values = sorted(set(c["errno"].values()) | {0, 134, 255, 4095})
    for e in values:
        out.append(Script("call", "jet", 3, answers=[e], tag="errno %d alone" % e))
        out.append(Script("call", "http", 4, answers=[ok4(10), e, ok4(11)], tag="errno %d between two connections" % e))
    for e in sorted(c["fatal"] | c["retry"] | {c["errno"]["EAGAIN"], c["errno"]["EMFILE"], c["errno"]["ENFILE"],
                                                c["errno"]["ENOMEM"], c["errno"]["ENOBUFS"], c["errno"]["EPROTO"], c["errno"]["EPERM"]}):
        for kind in ("jet", "http", "null"):
            out.append(Script("call", kind, 5, answers=[e, ok4(10)], tag="errno %d first" % e))
            out.append(Script("call", kind, 5, answers=[e, e, ok4(10), e], tag="errno %d repeated" % e))
            out.append(Script("start", kind, 5, 1, answers=[ok4(10), e], tag="start, errno %d" % e))
    # every single failure position, per kind and socket family
    for kind in ("jet", "http"):
        for gf in (i4, i6, ux, 0):
            out.append(Script("call", kind, 3, answers=[Conn(10, gf, b"", gf)], tag="no fault"))
            for st in STEPS:
                out.append(Script("call", kind, 3, answers=[Conn(10, gf, b"", gf, st)], tag="fault " + STEP_NAMES[st]))
                out.append(Script("call", kind, 3, answers=[ok4(9), Conn(10, gf, b"", gf, st), ok4(11)],
                                  tag="fault %s between two good connections" % STEP_NAMES[st]))
    out.append(Script("call", "jet", 3, answers=[Conn(10, i4, b"", i4, STEPS)], tag="everything fails"))
    out.append(Script("call", "null", 3, answers=[ok4(10), ok4(11)], tag="NULL peer function"))
    out.append(Script("call", "null", 3, answers=[Conn(10, i4, b"", i4, "gpt")], tag="NULL peer function ignores faults"))
    # addresses: through the whole path (PEER local=) and through is_localhost directly
    for name, fam, sa in named_addresses():
        for kind in ("jet", "http"):
            out.append(Script("call", kind, 3, answers=[Conn(10, fam, sa, fam if fam in (i4, i6, ux) else i4)], tag="origin " + name))
        out.append(Script("islocal", fam=fam, sa=sa, tag="origin " + name))
    # getsockname family differs from the accept family
    out.append(Script("call", "jet", 3, answers=[Conn(10, i4, sa_in(V4_LOCAL), ux), Conn(11, ux, b"", i6, "d")], tag="families differ"))
    # descriptor numbers: reused after close, reused after hand-over, 0, large
    out.append(Script("call", "jet", 3, answers=[Conn(7, i4, b"", i4, "b"), Conn(7, i4, b"", i4, "k"), Conn(7, i4), Conn(7, i4, b"", i4, "t")],
                      tag="descriptor number reused"))
    out.append(Script("call", "http", 3, answers=[Conn(0, i4), Conn(65535, i6, b"", i6, "p")], tag="descriptor 0 and 65535"))
    # start / stop
    for kind in ("jet", "http", "null"):
        out.append(Script("start", kind, 6, 0, answers=[ok4(10)], tag="start: add fails"))
        out.append(Script("start", kind, 6, 1, answers=[], tag="start: empty queue"))
        out.append(Script("start", kind, 6, 1, answers=[ok4(10), Conn(11, i4, b"", i4, "t"), c["errno"]["EBADF"]], tag="start: abort after two connections"))
        out.append(Script("start", kind, 6, 1, answers=[c["errno"]["ECONNABORTED"], ok4(10)], tag="start: aborted attempt first"))
    out.append(Script("stop", l=6, tag="stop"))
    out.append(Script("stop", l=0, tag="stop 0"))
    out.append(Script("call", "jet", 3, answers=[ok4(10 + i) for i in range(200)], tag="200 queued connections"))
    out.append(Script("call", "jet", 3, answers=[c["errno"]["ECONNABORTED"]] * 300 + [ok4(10)], tag="300 aborted attempts then one connection"))
    return out


def islocal_perturbations(full):
    """is_localhost on every pattern with one byte changed (all 255 other values when `full`)."""
    c = consts()
    out = []
    for fam, base, off, n in ((c["AF_INET"], sa_in(V4_LOCAL), 2, 4), (c["AF_INET6"], sa_in6(V6_LOCAL), 6, 16),
                              (c["AF_INET6"], sa_in6(V6_MAPPED), 6, 16), (c["AF_UNIX"], sa_in6(V6_LOCAL), 6, 16)):
        for pos in range(0, len(base)):
            vals = range(256) if (full and off <= pos < off + n) else sorted({0, 1, 2, 0x7f, 0x80, 0xff, base[pos] ^ 1, base[pos] ^ 0x80})
            for v in vals:
                if v != base[pos]:
                    b = bytearray(base)
                    b[pos] = v
                    out.append(Script("islocal", fam=fam, sa=bytes(b), tag="pattern byte %d := %d" % (pos, v)))
        for ln in range(0, len(base)):
            out.append(Script("islocal", fam=fam, sa=base[:ln], tag="pattern truncated to %d" % ln))
    return out


def fault_enumeration():
    """All single and double fault sites of a call with three queued connections.
    Sites per connection i: an errno answered *before* it (one of five class representatives) and each of the
    11 set-up steps.  Complete: every site alone, every unordered pair of sites (of different site slots)."""
    c = consts()
    i4 = c["AF_INET"]
    reps = [c["errno"]["EAGAIN"], c["errno"]["ECONNABORTED"], c["errno"]["EINTR"], c["errno"]["EMFILE"], c["errno"]["EBADF"]]
    sites = []
    for i in range(3):
        for e in reps:
            sites.append(("E", i, e))
        for st in STEPS:
            sites.append(("S", i, st))

    def build(chosen, kind):
        answers = []
        for i in range(3):
            faults = ""
            for s in chosen:
                if s[1] == i and s[0] == "E":
                    answers.append(s[2])
            for s in chosen:
                if s[1] == i and s[0] == "S":
                    faults += s[2]
            answers.append(Conn(10 + i, i4, sa_in(V4_LOCAL if i == 1 else [10, 0, 0, i]), i4, faults))
        return Script("call", kind, 3, answers=answers, tag="faults " + ",".join("%s%d:%s" % s for s in chosen))
    out = []
    for kind in ("jet", "http"):
        out.append(build([], kind))
        for a in range(len(sites)):
            out.append(build([sites[a]], kind))
            for b in range(a + 1, len(sites)):
                if sites[a][0] == "E" and sites[b][0] == "E" and sites[a][1] == sites[b][1]:
                    # two errnos in the same slot: both orders
                    out.append(build([sites[a], sites[b]], kind))
                    out.append(build([sites[b], sites[a]], kind))
                else:
                    out.append(build([sites[a], sites[b]], kind))
    return out, len(sites)


def random_script(r):
    c = consts()
    i4, i6, ux = c["AF_INET"], c["AF_INET6"], c["AF_UNIX"]
    names = named_addresses()
    errs_common = sorted(c["fatal"]) + sorted(c["retry"]) * 3 + [c["errno"][n] for n in ("EAGAIN", "EMFILE", "ENFILE", "ENOMEM", "ENOBUFS", "EPROTO", "EPERM")]
    p_err = r.choice([0.0, 0.15, 0.3, 0.6])
    p_fault = r.choice([0.0, 0.2, 0.5, 0.9])
    n = r.choice([0, 1, 1, 2, 3, 4, 6, 9, 14])
    answers = []
    used = []
    nextfd = r.choice([0, 4, 5, 100, 1000])
    kind = r.choice(["jet", "jet", "http", "http", "null"])
    l = r.choice([3, 3, 4, 9, 64])
    for _ in range(n):
        if r.random() < p_err:
            answers.append(r.choice(errs_common) if r.random() < 0.85 else r.randrange(0, 140))
            continue
        if used and r.random() < 0.12:
            fd = r.choice(used)
        else:
            fd = nextfd
            nextfd += r.choice([1, 1, 1, 2, 7])
            if fd == l:             # the listener's descriptor is open: the kernel cannot hand it out
                fd, nextfd = nextfd, nextfd + 1
        used.append(fd)
        x = r.random()
        if x < 0.6:
            _, fam, sa = r.choice(names)
        elif x < 0.8:
            fam = r.choice([i4, i6, ux])
            base = bytearray(r.choice([sa_in(V4_LOCAL), sa_in6(V6_LOCAL), sa_in6(V6_MAPPED)]))
            for _k in range(r.choice([0, 1, 1, 2])):
                base[r.randrange(len(base))] = r.choice([0, 1, 0x7f, 0xff, r.randrange(256)])
            sa = bytes(base)[:r.choice([len(base), len(base), r.randrange(len(base) + 1)])]
        else:
            fam = r.choice([i4, i6, ux, 0, 3, 16, 40, r.randrange(0, 65536)])
            sa = bytes(r.randrange(256) for _k in range(r.choice([0, 2, 6, 14, 22, 26, 40, 110, 126])))
        gsfam = fam if r.random() < 0.8 else r.choice([i4, i6, ux, 0, 5])
        faults = ""
        if r.random() < p_fault:
            k = r.choice([1, 1, 1, 2, 3])
            faults = "".join(sorted(set(r.choice(STEPS) for _k in range(k)), key=STEPS.index))
        answers.append(Conn(fd, fam, sa, gsfam, faults))
    x = r.random()
    if x < 0.84:
        return Script("call", kind, l, answers=answers, tag="random")
    if x < 0.98:
        return Script("start", kind, l, r.choice([1, 1, 1, 0]), answers=answers, tag="random")
    return Script("stop", l=l, tag="random")


# --------------------------------------------------------------------------- running both sides

def split_blocks(lines):
    blocks, cur = [], []
    for ln in lines:
        if ln == "END":
            blocks.append(cur)
            cur = []
        else:
            cur.append(ln)
    return blocks, cur


def run_impl(binp, scripts):
    """-> list of (lines, sanitizer_text or None) per script.  A sanitizer abort / crash is a result: the
    run is resumed behind the script that died."""
    res = []
    i = 0
    while i < len(scripts):
        text = "".join(s.line() + "\n" for s in scripts[i:])
        rc, out, err = C.sh([binp], inp=text.encode(), timeout=600,
                            env={"ASAN_OPTIONS": "detect_leaks=1:abort_on_error=0:exitcode=77", "UBSAN_OPTIONS": "print_stacktrace=1"})
        blocks, rest = split_blocks(out.splitlines())
        for b in blocks[:len(scripts) - i]:
            res.append((b, None))
        done = len(blocks)
        if i + done >= len(scripts):
            if rc != 0 and res:
                # died after the last END (LeakSanitizer at exit, …): attributed to the whole batch
                res[-1] = (res[-1][0], "exit code %d after the last script of a batch: %s" % (rc, err[-3000:]))
            break
        # the process died inside script i+done
        res.append((rest, "exit code %d: %s" % (rc, err[-3000:])))
        i += done + 1
    return res


def run_model(scripts):
    text = "".join(s.line() + "\n" for s in scripts)
    blocks, rest = split_blocks(C.run_drv("accept", text))
    if len(blocks) != len(scripts):
        raise RuntimeError("drv_accept answered %d blocks for %d scripts" % (len(blocks), len(scripts)))
    return blocks


# --------------------------------------------------------------------------- the property clauses (reference)

def kv(tok):
    k, _, v = tok.partition("=")
    return k, v


def spec_local(fam, sa):
    """RFC definition of a loopback origin for IP families; None where the property does not define it."""
    c = consts()
    if fam == c["AF_INET"]:
        a = (bytes(sa) + bytes(16))[2:6]
        return a == V4_LOCAL
    if fam == c["AF_INET6"]:
        a = (bytes(sa) + bytes(32))[6:22]
        return a == V6_LOCAL or a == V6_MAPPED
    return None


def eval_clauses(sc, lines, sanitizer=None):
    """Property clauses on one implementation trace -> list of (clause, text)."""
    c = consts()
    fails = []
    if sanitizer:
        fails.append(("memory", "sanitizer / crash: " + sanitizer[-1500:]))
    for ln in lines:
        if ln.startswith("FAULT spin"):
            fails.append(("listener", "loop does not end on an empty queue: " + ln))
        elif ln.startswith("FAULT"):
            fails.append(("fd", "harness monitor: " + ln))
        elif ln.startswith("ERROR"):
            fails.append(("machinery", ln))
    if sc.op == "islocal":
        want = spec_local(sc.fam, sc.sa)
        got = [ln for ln in lines if ln.startswith("LOCAL")]
        if want is not None and got and got[0] != "LOCAL %d" % (1 if want else 0):
            fails.append(("local", "is_localhost(family %d, %s) = %s, RFC says %s" % (sc.fam, C.hexs(sc.sa), got[0][6:], int(want))))
        return fails
    if sc.op == "stop":
        if lines != ["REMOVE l=%d" % sc.l, "CLOSE fd=%d" % sc.l]:
            fails.append(("start", "stop_server must remove the listener, then close it once: %s" % lines))
        return fails
    # ---- call / start: descriptor and record discipline
    flight, live, closed, owned = None, [], set(), set()
    conns = [a for a in sc.answers if isinstance(a, Conn)]
    ci = 0
    cur = None
    accepts = []          # ('fd', n) / ('errno', e)
    owner = {"jet": "peer", "http": "conn"}.get(sc.kind)
    ret = None
    add = None
    removed = False

    def unresolved(when):
        if flight is not None:
            fails.append(("fd", "descriptor %d neither closed nor handed to a peer %s" % (flight, when)))
        if live:
            fails.append(("fd", "record(s) %s neither freed nor handed to a peer %s" % (live, when)))
    for ln in lines:
        t = ln.split()
        if not t:
            continue
        if t[0] == "ACCEPT":
            unresolved("when accept is called again")
            flight, live = None, []
            k, v = kv(t[2])
            if int(kv(t[1])[1]) != sc.l:
                fails.append(("fd", "accept on descriptor %s, listener is %d" % (kv(t[1])[1], sc.l)))
            if removed:
                fails.append(("start", "accept after the listener was removed"))
            if k == "fd":
                flight = int(v)
                owned.discard(flight)
                closed.discard(flight)
                cur = conns[ci] if ci < len(conns) else None
                ci += 1
                accepts.append(("fd", flight))
            else:
                accepts.append(("errno", int(v)))
        elif t[0] == "SYS":
            fd = int(kv(t[1])[1])
            if fd != flight:
                fails.append(("fd", "%s on descriptor %d which is not the accepted descriptor in flight (%s)" % (t[2], fd, flight)))
        elif t[0] == "CLOSE":
            fd = int(kv(t[1])[1])
            if fd == flight:
                if live:
                    fails.append(("fd", "descriptor %d closed while %s still allocated (leak)" % (fd, live)))
                    live = []
                flight = None
                closed.add(fd)
            elif fd in closed:
                fails.append(("fd", "descriptor %d closed twice" % fd))
            elif fd in owned:
                fails.append(("fd", "descriptor %d closed although a peer owns it" % fd))
            else:
                fails.append(("fd", "close of descriptor %d that this call did not accept" % fd))
        elif t[0] == "ALLOC":
            if t[1] in live:
                fails.append(("fd", "second %s allocated for one connection" % t[1]))
            live.append(t[1])
        elif t[0] == "FREE":
            if t[1] in live:
                live.remove(t[1])
            else:
                fails.append(("fd", "%s freed although not live (double free)" % t[1]))
        elif t[0] == "PEER":
            fd = int(kv(t[1])[1])
            loc = int(kv(t[2])[1])
            kind = kv(t[3])[1]
            if fd != flight:
                fails.append(("fd", "peer created on descriptor %d, accepted descriptor in flight is %s" % (fd, flight)))
            if sorted(live) != sorted([owner or "?", "bs"]):
                fails.append(("fd", "peer created with records %s" % live))
            if kind != sc.kind:
                fails.append(("local", "listener of kind %s created a %s peer" % (sc.kind, kind)))
            if cur is not None and fd == cur.fd:
                want = spec_local(cur.fam, cur.sa)
                if want is not None and loc != int(want):
                    fails.append(("local", "origin family %d %s classified local=%d, RFC says %d" % (cur.fam, C.hexs(cur.sa), loc, int(want))))
            if fd == flight:
                owned.add(fd)
                flight = None
            live = []
        elif t[0] == "ADD":
            add = t[2] == "ok"
        elif t[0] == "REMOVE":
            removed = True
        elif t[0] == "RET":
            unresolved("when accept_common returns")
            ret = t[1]
        elif t[0] == "START":
            unresolved("when start_server returns")
            ret = "start" + kv(t[1])[1]
    # ---- listener clauses
    ran_loop = sc.op == "call" or add
    if ran_loop and not any(f[0] in ("memory",) for f in fails) and not any(ln.startswith("FAULT spin") for ln in lines):
        if not accepts:
            fails.append(("listener", "accept was never called"))
        else:
            lk, lv = accepts[-1]
            if lk == "fd":
                fails.append(("listener", "the call ended after a successful accept (queue not drained)"))
            elif lv in c["retry"]:
                fails.append(("listener", "errno %d (aborted attempt / signal) ended the call: the next queued connection is not accepted" % lv))
            aborted = (ret == "abort") if sc.op == "call" else (ret == "start-1")
            if lk == "errno":
                if aborted and lv not in c["fatal"]:
                    fails.append(("listener", "errno %d ends the event loop although the listening socket is usable" % lv))
                if not aborted and lv in c["fatal"]:
                    fails.append(("listener", "errno %d (listening socket unusable) does not abort" % lv))
            if ret is None:
                fails.append(("listener", "the call did not return"))
    if sc.op == "start":
        if add is None:
            fails.append(("start", "start_server did not register the listener"))
        elif not add:
            if ret != "start-1" or accepts or removed:
                fails.append(("start", "registration failed but start_server went on: %s" % lines))
        else:
            if ret == "start0" and removed:
                fails.append(("start", "start_server reports success but removed the listener"))
            if ret == "start-1" and not removed:
                fails.append(("start", "start_server reports failure but left the listener registered"))
            if removed and lines[-2:-1] != ["REMOVE l=%d" % sc.l]:
                fails.append(("start", "listener not removed as the last step"))
    return fails


# --------------------------------------------------------------------------- shrinking / classification

def shrink(sc, still_bad, budget=200):
    """Greedy: drop answers, drop fault letters, empty addresses — while `still_bad(script)` holds."""
    cur = sc
    steps = 0
    changed = True
    while changed and steps < budget:
        changed = False
        for i in range(len(cur.answers) - 1, -1, -1):
            cand = cur.with_answers(cur.answers[:i] + cur.answers[i + 1:])
            steps += 1
            if still_bad(cand):
                cur, changed = cand, True
        for i, a in enumerate(cur.answers):
            if isinstance(a, Conn):
                for letter in a.faults:
                    cand = cur.with_answers(cur.answers[:i] + [a.copy(faults=a.faults.replace(letter, ""))] + cur.answers[i + 1:])
                    steps += 1
                    if still_bad(cand):
                        cur, changed, a = cand, True, cand.answers[i]
                if a.gsfam != a.fam:
                    cand = cur.with_answers(cur.answers[:i] + [a.copy(gsfam=a.fam)] + cur.answers[i + 1:])
                    steps += 1
                    if still_bad(cand):
                        cur, changed = cand, True
        if steps >= budget:
            break
    return cur


class Judge:
    def __init__(self, binp, have_model):
        self.binp, self.have_model = binp, have_model

    def one(self, sc):
        (lines, san), = run_impl(self.binp, [sc])
        model = run_model([sc])[0] if self.have_model else None
        return lines, san, model

    def verdict(self, sc):
        lines, san, model = self.one(sc)
        fails = eval_clauses(sc, lines, san)
        differs = model is not None and (model != lines or san is not None)
        return fails, differs, lines, model, san


def report(out, judge, sc, ctx, where):
    """Shrink, classify, and file the violation."""
    fails, differs, lines, model, san = judge.verdict(sc)
    clause = sorted({f[0] for f in fails})
    if fails:
        key = clause[0]

        def bad(s):
            f, _, _, _, _ = judge.verdict(s)
            return any(x[0] == key for x in f)
    else:
        def bad(s):
            return judge.verdict(s)[1]
    small = shrink(sc, bad)
    fails, differs, lines, model, san = judge.verdict(small)
    if not fails and not differs:      # shrinking lost it (should not happen); keep the original
        small = sc
        fails, differs, lines, model, san = judge.verdict(small)
    clause = sorted({f[0] for f in fails})
    obj = {"component": "accept", "where": where, "script": small.line(), "original_script": sc.line(), "tag": sc.tag,
           "variant": "default", "seed": C.base_seed(), "impl_trace": lines, "model_trace": model, "sanitizer": san,
           "failing_clauses": ["%s: %s" % f for f in fails][:12],
           "theorems": sorted({t for cl in clause for t in THEOREMS_BY_CLAUSE.get(cl, [])}),
           "how_to_replay": "printf '%s\\n' \"<script>\" | <harness accept binary>   and   | lean/.lake/build/bin/drv_accept"}
    if fails:
        out.violation("accept path: property clause fails on the implementation (%s): %s" % (",".join(clause), fails[0][1][:300]), obj)
    else:
        obj["broken_correspondence"] = "Cjet.Accept no longer describes linux_io.c on this script; no property clause fails on it"
        obj["theorems"] = sorted({t for ts in THEOREMS_BY_CLAUSE.values() for t in ts if not t.startswith("(")})
        out.violation("accept path: model and implementation differ (no property clause fails on the inputs tried)", obj, no_input=True)


# --------------------------------------------------------------------------- entry point

def _classes_of_model():
    try:
        rc, o, _ = C.sh([C.drv_path("accept"), "classes"], timeout=30)
        return o.split("\n") if rc == 0 else None
    except Exception:
        return None


def driver_usable(ctx):
    """The driver can be compared when the Lean build succeeded — or, when the build failed for another reason
    (a theorem no longer checks, another component's extractor), when the executable is newer than every source
    it is made of, the regenerated constants included."""
    drv = C.drv_path("accept")
    if not os.path.exists(drv):
        return False
    if getattr(ctx, "lean_ok", True):
        return True
    try:
        srcs = [os.path.join(C.LEAN, *p) for p in (("Cjet", "Accept.lean"), ("Cjet", "Drv", "Accept.lean"), ("Cjet", "Basic.lean"),
                                                   ("Cjet", "Generated", "Accept.lean"), ("DrvAccept.lean",))]
        return os.path.getmtime(drv) >= max(os.path.getmtime(p) for p in srcs)
    except OSError:
        return False


def run_accept_tie(ctx, out):
    t0 = time.time()
    cov = out.coverage
    binp = C.cc_build("accept", [os.path.join(C.ROOT, "harness", "comp", "accept.c")], link_flags=WRAP)
    have_model = driver_usable(ctx)
    if not have_model:
        out.notes.append("accept: model driver not available or stale (Lean build failed): property clauses are evaluated on the implementation only")
    judge = Judge(binp, have_model)
    c = consts()

    directed = directed_corpus()
    directed += islocal_perturbations(full=ctx.thorough)
    enum, n_sites = fault_enumeration()
    n_random = 600000 if ctx.thorough else 30000
    chunk = 2000
    stats = {"scripts": 0, "lines": 0, "diffs": 0, "clause_fail": 0, "ops": {}, "outcome": {}, "errno_class": {"fatal": 0, "retry": 0, "stop": 0},
             "ret": {}, "local": {"0": 0, "1": 0}, "families": {}, "nontrivial": set()}
    reported = []
    MAXREP = 3

    def digest(scripts, impl, model):
        for sc, (lines, san), mb in zip(scripts, impl, model):
            stats["scripts"] += 1
            stats["lines"] += len(lines)
            stats["ops"][sc.op + ":" + sc.kind if sc.op in ("call", "start") else sc.op] = \
                stats["ops"].get(sc.op + ":" + sc.kind if sc.op in ("call", "start") else sc.op, 0) + 1
            sig = []
            for ln in lines:
                t = ln.split()
                if t[0] == "ACCEPT" and t[2].startswith("errno="):
                    e = int(t[2][6:])
                    cl = "fatal" if e in c["fatal"] else "retry" if e in c["retry"] else "stop"
                    stats["errno_class"][cl] += 1
                    sig.append(cl)
                elif t[0] == "PEER":
                    stats["outcome"]["peer"] = stats["outcome"].get("peer", 0) + 1
                    stats["local"][t[2][-1]] += 1
                    sig.append("P" + t[2][-1])
                elif t[0] == "SYS" and t[3] == "fail":
                    stats["outcome"]["closed: " + t[2]] = stats["outcome"].get("closed: " + t[2], 0) + 1
                    sig.append("x" + t[2])
                elif t[0] in ("ALLOCFAIL", "INITFAIL"):
                    kk = "closed: " + " ".join(t).lower()
                    stats["outcome"][kk] = stats["outcome"].get(kk, 0) + 1
                    sig.append(t[0] + (t[1] if len(t) > 1 else ""))
                elif t[0] in ("RET", "START"):
                    stats["ret"][" ".join(t[:2])] = stats["ret"].get(" ".join(t[:2]), 0) + 1
                    sig.append(t[1])
                elif t[0] == "LOCAL":
                    stats["local"][t[1]] += 1
            for a in sc.answers:
                if isinstance(a, Conn):
                    fk = {c["AF_INET"]: "inet", c["AF_INET6"]: "inet6", c["AF_UNIX"]: "unix"}.get(a.fam, "other")
                    stats["families"][fk] = stats["families"].get(fk, 0) + 1
            if len(sig) > 1:
                stats["nontrivial"].add((sc.op, sc.kind, tuple(sig)))
            fails = eval_clauses(sc, lines, san)
            differs = mb is not None and (mb != lines or san is not None)
            if fails:
                stats["clause_fail"] += 1
            if differs:
                stats["diffs"] += 1
            if (fails or differs) and len(reported) < MAXREP:
                key = (tuple(sorted({f[0] for f in fails})), bool(differs) and not fails)
                if key not in [r[0] for r in reported]:
                    reported.append((key, sc))

    def run_batch(scripts):
        impl = run_impl(binp, scripts)
        if len(impl) != len(scripts):
            raise RuntimeError("accept harness answered %d blocks for %d scripts" % (len(impl), len(scripts)))
        model = run_model(scripts) if have_model else [None] * len(scripts)
        return impl, model

    # directed + enumeration: in order, so that the first report is the simplest case
    for name, group in (("directed", directed), ("enumeration", enum)):
        impl, model = run_batch(group)
        digest(group, impl, model)

    # random, in parallel chunks (scripts are generated from the seed, chunk by chunk)
    def job(ci):
        scripts = [random_script(C.rng("accept", ci * chunk + j)) for j in range(chunk)]
        impl, model = run_batch(scripts)
        return scripts, impl, model
    n_chunks = (n_random + chunk - 1) // chunk
    with concurrent.futures.ThreadPoolExecutor(max_workers=MAX_PAR) as ex:
        for scripts, impl, model in ex.map(job, range(n_chunks)):
            digest(scripts, impl, model)

    # property failures first; a pure model/code difference is filed only when no clause fails anywhere
    with_input = [r for r in reported if r[0][0]]
    for key, sc in (with_input or reported):
        report(out, judge, sc, ctx, "accept tie")

    samples = [s.line() for s in (directed[1], directed[len(directed) // 3], enum[len(enum) // 2], random_script(C.rng("accept", 0)),
                                  random_script(C.rng("accept", 1)))]
    cov.update({
        "accept_traces_validated_against_impl": stats["scripts"] if have_model else 0,
        "accept_evaluations": stats["scripts"],
        "accept_trace_lines_compared": stats["lines"],
        "accept_directed_scripts": len(directed),
        "accept_fault_sites": n_sites,
        "accept_fault_enumeration_scripts": len(enum),
        "accept_exhaustive": True,
        "accept_exhaustive_what": "every single fault site and every pair of fault sites (3 queued connections x (5 accept errnos + 11 set-up steps) = %d sites), jet and http; every errno number of <errno.h> alone and between two connections%s" % (
            n_sites, "; every value of every byte of the three loopback patterns" if ctx.thorough else ""),
        "accept_random_scripts": n_chunks * chunk,
        "accept_distinct_nontrivial": len(stats["nontrivial"]),
        "accept_distinct_nontrivial_rule": "distinct (operation, listener kind, sequence of errno classes / failing steps / peers with local bit / return value) with at least two such events",
        "accept_ops": stats["ops"],
        "accept_errno_class_hist": stats["errno_class"],
        "accept_outcome_hist": stats["outcome"],
        "accept_return_hist": stats["ret"],
        "accept_local_bit_hist": stats["local"],
        "accept_family_hist": stats["families"],
        "accept_disagreements": stats["diffs"],
        "accept_clause_failures": stats["clause_fail"],
        "accept_samples": samples,
        "accept_model_classes": _classes_of_model() if have_model else None,
        "accept_wall_s": round(time.time() - t0, 2),
    })
    if "accept: libc/kernel replaced by scripted accept/fcntl/getsockname/setsockopt/close (-Wl,--wrap); callees init_socket_peer / init_http_connection / allocators stubbed with their documented contract" not in out.assumptions:
        out.assumptions.append("accept: libc/kernel replaced by scripted accept/fcntl/getsockname/setsockopt/close (-Wl,--wrap); callees init_socket_peer / init_http_connection / allocators stubbed with their documented contract")
    return {"scripts": stats["scripts"], "diffs": stats["diffs"], "clause_failures": stats["clause_fail"], "have_model": have_model}


def replay(d):
    """Re-run the script of a replay object; 1 if it still fails."""
    binp = C.cc_build("accept", [os.path.join(C.ROOT, "harness", "comp", "accept.c")], link_flags=WRAP)
    line = d.get("script", "")
    rc, o, e = C.sh([binp], inp=(line + "\n").encode(), timeout=120)
    print("script:", line)
    print("implementation:\n" + o)
    if e.strip():
        print("stderr:\n" + e[-3000:])
    model = None
    if os.path.exists(C.drv_path("accept")):
        model = C.run_drv("accept", line + "\n")
        print("model:\n" + "\n".join(model))
    sc = parse_line(line)
    lines = [ln for ln in o.splitlines() if ln != "END"]
    fails = eval_clauses(sc, lines, None if rc == 0 else "exit code %d" % rc) if sc else []
    print("failing clauses:", fails)
    differs = model is not None and [ln for ln in model if ln != "END"] != lines
    print("model/implementation differ:", differs)
    return 1 if (fails or differs) else 0


def parse_line(line):
    t = line.split()
    if not t:
        return None
    if t[0] == "islocal":
        return Script("islocal", fam=int(t[1]), sa=C.unhex(t[2]))
    if t[0] == "stop":
        return Script("stop", l=int(t[1]))
    toks = t[3:] if t[0] == "call" else t[4:]
    answers = []
    for tok in toks:
        if tok[0] == "E":
            answers.append(int(tok[1:]))
        else:
            fd, fam, hx, gs, fl = tok[1:].split(":")
            answers.append(Conn(int(fd), int(fam), C.unhex(hx), int(gs), "" if fl == "-" else fl))
    return Script(t[0], t[1], int(t[2]), int(t[3]) if t[0] == "start" else 1, answers)
