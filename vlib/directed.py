"""Directed scenario families (one per anchored mechanism of properties.jsonl) and regression scenarios of the
defects that were repaired in /repo (known_findings.json, status fixed)."""
from . import simlog as L
from .daemon import Scenario, obj, jtext


def population():
    """owner c0 (state s, method m, fetch-only state fo), subscriber c1 (fetch all), caller c2 with requests in flight"""
    return [
        ("connect", 0, "raw", "local6"), ("connect", 1, "ws", "remote6"), ("connect", 2, "raw", "remote6"),
        ("msg", 1, obj(method="fetch", params=obj(id="sub"), id=1)),
        ("msg", 0, obj(method="add", params=obj(path="s", value=1), id=1)),
        ("msg", 0, obj(method="add", params=obj(path="m"), id=2)),
        ("msg", 0, obj(method="add", params=obj(path="fo", value=obj(a=1), fetchOnly=True), id=3)),
        ("msg", 2, obj(method="set", params=obj(path="s", value=5), id="set1")),
        ("msg", 2, obj(method="call", params=obj(path="m", args=[1]), id=77)),
        ("msg", 2, obj(method="call", params=obj(path="m"))),
        ("quiesce",),
    ]


def close_positions(thorough=False):
    """a victim connection ends at every byte position of: length prefix, message, HTTP request line, header block,
    WebSocket frame header and payload — by EOF and by reset — while it owns elements, holds a fetch and has requests in flight"""
    out = []
    msg = jtext(obj(method="add", params=obj(path="v", value=[1, 2, 3]), id=9))
    frame = L.raw_frame(msg)
    ks = range(0, len(frame)) if thorough else list(range(0, 8)) + list(range(8, len(frame), 5))
    for how in ("eof", "rst"):
        for k in ks:
            st = population() + [
                ("connect", 3, "raw", "remote6"),
                ("msg", 3, obj(method="add", params=obj(path="victim", value=1), id=1)),
                ("msg", 3, obj(method="fetch", params=obj(id="vf"), id=2)),
                ("msg", 3, obj(method="set", params=obj(path="s", value=6), id="vs")),
                ("msg", 2, obj(method="set", params=obj(path="victim", value=2), id="tovictim")),
                ("quiesce",),
            ]
            if k > 0:
                st.append(("partial", 3, frame[:k]))
            st += [(how, 3), ("quiesce",), ("eof", 0), ("eof", 1), ("eof", 2), ("quiesce",)]
            out.append(Scenario(st, name="close-raw-%s-%d" % (how, k)))
    up = L.ws_upgrade()
    wsf = L.ws_frame(msg)
    kup = range(0, len(up) + 1) if thorough else list(range(0, len(up) + 1, 7)) + [len(up) - 1, len(up)]
    for how in ("eof", "rst"):
        for k in kup:
            st = population() + [("connect_http", 3, "remote6")]
            if k > 0:
                st.append(("partial", 3, up[:k]))
            st += [(how, 3), ("quiesce",), ("eof", 0), ("eof", 1), ("eof", 2), ("quiesce",)]
            out.append(Scenario(st, name="close-http-%s-%d" % (how, k)))
        kf = range(0, len(wsf)) if thorough else list(range(0, 8)) + list(range(8, len(wsf), 6))
        for k in kf:
            st = population() + [
                ("connect", 3, "ws", "remote6"),
                ("msg", 3, obj(method="add", params=obj(path="victim", value=1), id=1)),
                ("msg", 3, obj(method="fetch", params=obj(id="vf"), id=2)),
                ("msg", 3, obj(method="call", params=obj(path="m"), id="vc")),
                ("msg", 2, obj(method="set", params=obj(path="victim", value=2), id="tovictim")),
                ("quiesce",),
            ]
            if k > 0:
                st.append(("partial", 3, wsf[:k]))
            st += [(how, 3), ("quiesce",), ("eof", 0), ("eof", 1), ("eof", 2), ("quiesce",)]
            out.append(Scenario(st, name="close-ws-%s-%d" % (how, k)))
    return out


def batch_orders():
    """reply / expiry / owner close / caller close of the same routed request harvested in one epoll batch, every order"""
    out = []
    base = [("connect", 0, "raw", "local6"), ("connect", 1, "ws", "remote6"),
            ("msg", 0, obj(method="add", params=obj(path="a", value=1), id=1)),
            ("msg", 1, obj(method="set", params=obj(path="a", value=2, timeout=1.5), id="x"))]
    evs = {"reply": ("reply", 0, 0, "result", True), "expiry": ("timer", 0), "ownerclose": ("eof", 0), "callerclose": ("eof", 1)}
    names = list(evs)
    for a in names:
        for b in names:
            if a == b:
                continue
            sub = [("advance", 2 * 10 ** 9), evs[a], evs[b]]
            if a == "ownerclose" and b == "reply" or a == "reply" and b == "ownerclose":
                pass
            out.append(Scenario(base + [("mixed", sub), ("quiesce",), ("eof", 0), ("eof", 1), ("quiesce",)], name="batch-%s-%s" % (a, b)))
    for a in names:
        for b in names:
            for c in names:
                if len({a, b, c}) == 3:
                    out.append(Scenario(base + [("mixed", [("advance", 2 * 10 ** 9), evs[a], evs[b], evs[c]]), ("quiesce",), ("eof", 0), ("eof", 1), ("quiesce",)],
                                        name="batch-%s-%s-%s" % (a, b, c)))
    return out


def regressions():
    """replays of repaired defects (F-numbers of DESIGN.md §7)"""
    out = []
    # F6: a bystander's disconnect must not disturb in-flight requests of others
    out.append(Scenario([
        ("connect", 0, "raw", "local6"), ("connect", 1, "raw", "remote6"), ("connect", 2, "raw", "remote6"),
        ("msg", 0, obj(method="add", params=obj(path="a", value=1), id=1)),
        ("msg", 1, obj(method="set", params=obj(path="a", value=2), id="x")),
        ("quiesce",), ("eof", 2), ("quiesce",),
        ("reply", 0, 0, "result", True), ("quiesce",), ("eof", 0), ("eof", 1), ("quiesce",)], name="F6-bystander-disconnect"))
    # F11-F13: a failing subscriber in front of a healthy one
    out.append(Scenario([
        ("connect", 0, "raw", "local6"), ("connect", 1, "raw", "remote6"), ("connect", 2, "ws", "remote6"),
        ("msg", 1, obj(method="fetch", params=obj(id="fb"), id=1)),
        ("msg", 2, obj(method="fetch", params=obj(id="fc"), id=1)),
        ("wmode", 1, "err"),
        ("msg", 0, obj(method="add", params=obj(path="a", value=1), id=1)),
        ("msg", 0, obj(method="change", params=obj(path="a", value=2), id=2)),
        ("msg", 0, obj(method="get", params=obj(), id=3)),
        ("msg", 0, obj(method="remove", params=obj(path="a"), id=4)),
        ("quiesce",), ("eof", 0), ("eof", 1), ("eof", 2), ("quiesce",)], name="F11-failing-subscriber"))
    # F30: delivery to the owner fails -> one error answer, no record, no timer
    out.append(Scenario([
        ("connect", 0, "raw", "local6"), ("connect", 1, "raw", "remote6"),
        ("msg", 0, obj(method="add", params=obj(path="a", value=1), id=1)),
        ("wmode", 0, "err"),
        ("msg", 1, obj(method="set", params=obj(path="a", value=2, timeout=1.0), id="x")),
        ("quiesce",), ("advance", 2 * 10 ** 9), ("quiesce",), ("eof", 0), ("eof", 1), ("quiesce",)], name="F30-owner-unreachable"))
    # F14: id echo
    out.append(Scenario([("connect", 0, "raw", "local6")] + [("msg", 0, obj(method="info", id=i)) for i in (17.5, -0.5, 3000000000, 1e300, "", "x" * 40)] +
                        [("eof", 0), ("quiesce",)], name="F14-id-echo"))
    # F2: long peer name + something that logs
    out.append(Scenario([("connect", 0, "raw", "local6"), ("msg", 0, obj(method="config", params=obj(name="n" * 250), id=1)),
                         ("msg", 0, obj(result=1)), ("msg", 0, b"{garbage"), ("quiesce",)], name="F2-long-name-log"))
    # F3: truncated JSON followed by stale bytes from an earlier long message
    long_msg = obj(method="info", id=1, pad="}" * 400)
    out.append(Scenario([("connect", 0, "raw", "local6"), ("msg", 0, long_msg), ("msg", 0, b'{"method":"info","id":5'), ("quiesce",)], name="F3-stale-bytes"))
    # F17: bad request line after a matching URL, then shutdown
    out.append(Scenario([("connect_http", 0, "remote6"), ("partial", 0, b"GET /api/jet/ FOO\r\n"), ("quiesce",),
                         ("connect", 1, "raw", "local6"), ("msg", 1, obj(method="add", params=obj(path="a", value=1), id=1)), ("eof", 1), ("quiesce",)], name="F17-http-peer-before-validation"))
    # F34: half a request line, then SIGTERM
    out.append(Scenario([("connect_http", 0, "remote6"), ("partial", 0, b"GET /api/j"), ("quiesce",)], name="F34-term-with-pending-http"))
    # F20: accept failure does not stop the daemon
    out.append(Scenario([("raw", "ACCEPTFAIL jet 103"), ("raw", "ACCEPTFAIL http 24"), ("connect", 0, "raw", "local6"),
                         ("msg", 0, obj(method="info", id=1)), ("eof", 0), ("quiesce",)], name="F20-accept-failure"))
    # F18: WebSocket caller/owner with requests in flight (also a self-call) reach EOF
    for victim in (0, 1):
        out.append(Scenario([
            ("connect", 0, "ws", "local6"), ("connect", 1, "ws", "remote6"),
            ("msg", 0, obj(method="add", params=obj(path="m"), id=1)),
            ("msg", 0, obj(method="fetch", params=obj(id="f"), id=2)),
            ("msg", 1, obj(method="call", params=obj(path="m"), id="x")),
            ("msg", 0, obj(method="call", params=obj(path="m"), id="self")),
            ("quiesce",), ("eof", victim), ("quiesce",), ("eof", 1 - victim), ("quiesce",)], name="F18-ws-eof-%d" % victim))
    # F15/F16 leaks
    out.append(Scenario([("connect", 0, "raw", "local6"),
                         ("msg", 0, obj(method="add", params=obj(path="a", value=1, access=obj(fetchGroups=5)), id=1)),
                         ("msg", 0, obj(method="add", params=obj(path="b", access=obj(callGroups="x")), id=2)),
                         ("eof", 0), ("quiesce",)], name="F15-overwritten-error"))
    # F12: element table full after subscribers were told (small tables)
    st = [("connect", 0, "raw", "local6"), ("connect", 1, "raw", "remote6"), ("msg", 1, obj(method="fetch", params=obj(id="f"), id=1))]
    for i in range(12):
        st.append(("msg", 0, obj(method="add", params=obj(path="p%d" % i, value=i), id=i)))
    st += [("quiesce",), ("eof", 0), ("eof", 1), ("quiesce",)]
    out.append(Scenario(st, variant="small", name="F12-index-full-rollback"))
    return out


def long_ids():
    """two in-flight requests at one owner whose (long) ids agree in their first 70 characters, answered in both orders"""
    out = []
    base = "L" * 70
    for same_caller in (True, False):
        for order in ((0, 1), (1, 0)):
            c2 = 1 if same_caller else 2
            st = [("connect", 0, "raw", "local6"), ("connect", 1, "ws", "remote6"), ("connect", 2, "raw", "remote6"),
                  ("msg", 0, obj(method="add", params=obj(path="s", value=1), id=1)),
                  ("msg", 1, obj(method="set", params=obj(path="s", value="first"), id=base + "aaaa")),
                  ("msg", c2, obj(method="set", params=obj(path="s", value="second"), id=base + "bbbb")),
                  ("quiesce",),
                  ("reply", 0, order[0], "result", "answer-%d" % order[0]),
                  ("reply", 0, order[1], "result", "answer-%d" % order[1]),
                  ("quiesce",), ("eof", 0), ("eof", 1), ("eof", 2), ("quiesce",)]
            out.append(Scenario(st, name="long-ids-%s-%d%d" % ("same" if same_caller else "two", order[0], order[1])))
    return out


def reauth():
    """one connection authenticates as several users in turn; rights must be those of the LAST successful authenticate"""
    out = []
    allg = ["g0", "g1"]
    users = [
        {"name": "root", "password": "toor!pw", "auth": obj(fetchGroups=allg, setGroups=allg, callGroups=allg), "readonly": False, "admin": True},
        {"name": "fetchonly", "password": "fetch-pw", "auth": obj(fetchGroups=allg), "readonly": False, "admin": False},
        {"name": "setter", "password": "setter-pw", "auth": obj(setGroups=["g1"]), "readonly": False, "admin": False},
        {"name": "nothing", "password": "nothing-pw", "auth": obj(), "readonly": False, "admin": False},
    ]
    pw = {u["name"]: u["password"] for u in users}
    for seq in (["root", "fetchonly"], ["root", "setter"], ["root", "nothing"], ["fetchonly", "setter"], ["setter", "fetchonly"], ["root", "root", "nothing"]):
        st = [("connect", 0, "raw", "local6"), ("connect", 1, "ws", "remote6"),
              ("msg", 0, obj(method="authenticate", params=obj(user="root", password=pw["root"]), id=1)),
              ("msg", 0, obj(method="add", params=obj(path="s", value=1, access=obj(fetchGroups=["g0"], setGroups=["g1"])), id=2)),
              ("msg", 0, obj(method="add", params=obj(path="m", access=obj(fetchGroups=["g1"], callGroups=["g0"])), id=3))]
        n = 10
        for u in seq:
            st.append(("msg", 1, obj(method="authenticate", params=obj(user=u, password=pw[u]), id=n)))
            n += 1
        st += [("msg", 1, obj(method="get", params=obj(), id=n)),
               ("msg", 1, obj(method="set", params=obj(path="s", value=2), id=n + 1)),
               ("msg", 1, obj(method="call", params=obj(path="m"), id=n + 2)),
               ("msg", 1, obj(method="fetch", params=obj(id="f"), id=n + 3)),
               ("msg", 0, obj(method="change", params=obj(path="s", value=3), id=4)),
               ("quiesce",), ("eof", 1), ("eof", 0), ("quiesce",)]
        out.append(Scenario(st, users=users, name="reauth-" + "-".join(seq)))
    return out


def accept_queue():
    """several connection attempts queued on one listener wake-up, the first accept() failing: the healthy ones must be served"""
    out = []
    for ep, tr in (("jet", "raw"), ("uds", "raw")):
        for errno in (103, 4, 24, 71):          # ECONNABORTED, EINTR, EMFILE, EPROTO
            for n in (2, 3):
                st = [("connect", 0, "raw", "local6"), ("msg", 0, obj(method="add", params=obj(path="a", value=1), id=1))]
                for i in range(n):
                    st.append(("raw", "+CONNECT %s %s" % (ep, "unix" if ep == "uds" else "local6")))
                st.append(("raw", "ACCEPTFAIL %s %d" % (ep, errno)))
                if errno in (24, 71):
                    # a transient lack of resources may leave the queue for the next wake-up: one more attempt arrives
                    st.append(("raw", "CONNECT %s %s" % (ep, "unix" if ep == "uds" else "local6")))
                for i in range(n):
                    st.append(("msg", 1 + i, obj(method="get", params=obj(), id=10 + i)))
                st += [("quiesce",)]
                out.append(Scenario(st, name="accept-queue-%s-%d-%d" % (ep, errno, n)))
    return out


def faulty_caller():
    """a caller stops reading / its socket fails after it issued requests; the owner's replies must not harm the owner"""
    out = []
    for mode in ("err", "eagain", "0,0:err"):
        for tr in ("raw", "ws"):
            st = [("connect", 0, tr, "local6"), ("connect", 1, "raw", "remote6"), ("connect", 2, "ws", "remote6"),
                  ("msg", 0, obj(method="add", params=obj(path="s", value=1), id=1)),
                  ("msg", 0, obj(method="add", params=obj(path="m"), id=2)),
                  ("msg", 2, obj(method="fetch", params=obj(id="f"), id=1)),
                  ("msg", 1, obj(method="set", params=obj(path="s", value=2), id="c1")),
                  ("msg", 1, obj(method="call", params=obj(path="m", args=[1]), id="c2")),
                  ("wmode", 1, mode),
                  ("reply", 0, 0, "result", True),
                  ("reply", 0, 1, "error", obj(code=1, message="no")),
                  ("msg", 0, obj(method="change", params=obj(path="s", value=5), id=3)),
                  ("msg", 2, obj(method="call", params=obj(path="m"), id="other")),
                  ("reply", 0, 2, "result", 7),
                  ("quiesce",), ("eof", 1), ("eof", 0), ("eof", 2), ("quiesce",)]
            out.append(Scenario(st, name="faulty-caller-%s-%s" % (mode.replace(",", "_").replace(":", "_"), tr)))
    return out


# ---------------------------------------------------------------------------------------------------------------------
# families added after the second round of seeded changes
# ---------------------------------------------------------------------------------------------------------------------

def case_variants():
    """several elements whose paths differ only in case exist BEFORE and AFTER a fetch with every matcher kind,
    case sensitive and not: the replica must hold every match (not only the first one found)"""
    out = []
    paths = ["a/b", "A/B", "a/B", "A/b", "x/a/b"]
    rules = [obj(equals="a/b", caseInsensitive=True), obj(equals="A/B", caseInsensitive=True), obj(equals="a/b"),
             obj(equalsNot="a/b", caseInsensitive=True), obj(startsWith="a/", caseInsensitive=True),
             obj(endsWith="/B", caseInsensitive=True), obj(contains="A/b", caseInsensitive=True),
             obj(containsAllOf=["a", "B"], caseInsensitive=True), obj(caseInsensitive=True, equals="a/B")]
    for i, rule in enumerate(rules):
        for tr in ("raw", "ws"):
            st = [("connect", 0, "raw", "local6"), ("connect", 1, tr, "remote6"), ("connect", 2, "raw", "local6")]
            n = 1
            for k, p in enumerate(paths[:3]):
                st.append(("msg", 0 if k % 2 == 0 else 2, obj(method="add", params=obj(path=p, value=k), id=n)))
                n += 1
            st.append(("msg", 1, obj(method="fetch", params=obj(id="f", path=rule), id=50)))
            for k, p in enumerate(paths[3:]):
                st.append(("msg", 0, obj(method="add", params=obj(path=p, value=10 + k), id=n)))
                n += 1
            st += [("msg", 0, obj(method="change", params=obj(path="a/b", value=77), id=n)),
                   ("msg", 2, obj(method="change", params=obj(path="A/B", value=78), id=n + 1)),
                   ("msg", 1, obj(method="get", params=obj(path=rule), id=51)),
                   ("msg", 0, obj(method="remove", params=obj(path="a/B"), id=n + 2)),
                   ("quiesce",), ("eof", 2), ("quiesce",), ("eof", 0), ("eof", 1), ("quiesce",)]
            out.append(Scenario(st, name="case-variants-%d-%s" % (i, tr)))
    return out


def equal_looking_values():
    """an accepted change to a value that a tolerant comparison would call equal to the old one must still be stored
    and reported (numbers a few ulp apart, repeated object members, member order, 1 vs 1.0 vs true)"""
    pairs = [(1.0000000000000004, 1.0000000000000007), (1.0000000000000007, 1.0000000000000004),
             (obj(("a", 1), ("a", 1)), obj(a=1)), (obj(a=1), obj(("a", 1), ("a", 1))),
             (obj(("a", 1), ("b", 2)), obj(("a", 1), ("b", 2), ("a", 1))), (obj(("a", 1), ("b", 2)), obj(("b", 2), ("a", 1))),
             (obj(("a", 1), ("A", 2)), obj(("A", 2), ("a", 1))),
             (1, True), (0, False), (0, None), ("", None), ([], obj()), ([1, 2], [1, 2, None]), ("1", 1), (1e10, 10000000000),
             (3000000000, 3000000001), (0.1, 0.10000000000000002), ([obj(a=[1.0000000000000004])], [obj(a=[1.0000000000000007])])]
    out = []
    for i, (v1, v2) in enumerate(pairs):
        st = [("connect", 0, "raw", "local6"), ("connect", 1, "ws", "remote6"),
              ("msg", 1, obj(method="fetch", params=obj(id="f"), id=1)),
              ("msg", 0, obj(method="add", params=obj(path="s", value=v1), id=1)),
              ("msg", 0, obj(method="change", params=obj(path="s", value=v2), id=2)),
              ("msg", 1, obj(method="get", params=obj(), id=2)),
              ("quiesce",),
              ("msg", 0, obj(method="change", params=obj(path="s", value=v1), id=3)),
              ("msg", 0, obj(method="change", params=obj(path="s", value=v1), id=4)),
              ("msg", 1, obj(method="get", params=obj(), id=3)),
              ("quiesce",), ("eof", 0), ("eof", 1), ("quiesce",)]
        out.append(Scenario(st, name="equal-looking-%d" % i))
    return out


def dup_members():
    """requests whose params (or top level) carry a member twice in different spellings: every handler must act on the same
    one (cJSON's lookup: first match, case-insensitive), so that the existence check and the insertion see one path"""
    out = []
    spell = [("PATH", "path"), ("path", "PATH"), ("Path", "path"), ("path", "path")]
    for i, (k1, k2) in enumerate(spell):
        for meth in ("add", "change", "remove", "set", "call"):
            st = [("connect", 0, "raw", "local6"), ("connect", 1, "raw", "remote6"), ("connect", 2, "ws", "remote6"),
                  ("msg", 2, obj(method="fetch", params=obj(id="f"), id=1)),
                  ("msg", 0, obj(method="add", params=obj(path="taken", value=1), id=1)),
                  ("msg", 0, obj(method="add", params=obj(path="m"), id=2)),
                  ("msg", 1, obj(method="add", params=obj(path="mine", value=5), id=1))]
            if meth == "add":
                st.append(("msg", 1, obj(method="add", params=obj((k1, "free"), (k2, "taken"), ("value", 2)), id=2)))
                st.append(("msg", 1, obj(method="add", params=obj((k1, "taken"), (k2, "free2"), ("value", 3)), id=3)))
            elif meth == "change":
                st.append(("msg", 1, obj(method="change", params=obj((k1, "mine"), (k2, "taken"), ("value", 9)), id=2)))
                st.append(("msg", 1, obj(method="change", params=obj((k1, "taken"), (k2, "mine"), ("value", 8)), id=3)))
                st.append(("msg", 1, obj(method="change", params=obj(("path", "mine"), ("VALUE", 21), ("value", 22)), id=4)))
            elif meth == "remove":
                st.append(("msg", 1, obj(method="remove", params=obj((k1, "taken"), (k2, "mine")), id=2)))
                st.append(("msg", 1, obj(method="remove", params=obj((k1, "mine"), (k2, "taken")), id=3)))
            elif meth == "set":
                st.append(("msg", 1, obj(method="set", params=obj((k1, "taken"), (k2, "m"), ("value", 4)), id=2)))
                st.append(("msg", 1, obj(method="set", params=obj((k1, "m"), (k2, "taken"), ("value", 4)), id=3)))
            else:
                st.append(("msg", 1, obj(method="call", params=obj((k1, "m"), (k2, "taken"), ("args", [1])), id=2)))
                st.append(("msg", 1, obj(method="call", params=obj((k1, "taken"), (k2, "m")), id=3)))
            st += [("msg", 2, obj(method="get", params=obj(), id=2)),
                   ("msg", 0, obj(method="change", params=obj(path="taken", value=100), id=9)),
                   ("msg", 0, obj(method="remove", params=obj(path="taken"), id=10)),
                   ("msg", 2, obj(method="get", params=obj(), id=3)),
                   ("quiesce",), ("eof", 0), ("eof", 1), ("eof", 2), ("quiesce",)]
            out.append(Scenario(st, name="dup-members-%d-%s" % (i, meth)))
    return out


def reply_forms():
    """the owner answers with differently spelled members ("Result", "ERROR"), with both members, with neither, inside a
    JSON array, several at once: the requester must get one well-formed response (result XOR error) per request"""
    out = []
    forms = [("Result", True), ("RESULT", obj(a=1)), ("Error", obj(code=5, message="no")), ("ERROR", obj(code=6, message="no")),
             ("result", None), ("error", obj(code=-1, message="m", data=[1])), ("resulT", 0)]
    for i, (key, val) in enumerate(forms):
        for tr in ("raw", "ws"):
            st = [("connect", 0, tr, "local6"), ("connect", 1, "raw", "remote6"), ("connect", 2, "ws", "remote6"),
                  ("msg", 0, obj(method="add", params=obj(path="s", value=1), id=1)),
                  ("msg", 0, obj(method="add", params=obj(path="m"), id=2)),
                  ("msg", 1, obj(method="set", params=obj(path="s", value=2), id="r1")),
                  ("msg", 2, obj(method="call", params=obj(path="m", args=[1]), id="r2")),
                  ("msg", 1, obj(method="call", params=obj(path="m"), id=3)),
                  ("reply", 0, 0, key, val),
                  ("reply", 0, [1, 2], key, val),
                  ("msg", 1, obj(method="set", params=obj(path="s", value=3), id="r4")),
                  ("reply", 0, [3], key, val),
                  ("quiesce",), ("eof", 1), ("eof", 0), ("eof", 2), ("quiesce",)]
            out.append(Scenario(st, name="reply-forms-%d-%s" % (i, tr)))
    return out


def faulty_caller_batched():
    """like faulty_caller, with the owner answering inside JSON arrays: the answer for the unreachable caller and the one
    for a healthy caller travel in one message; the owner and the healthy caller must not notice"""
    out = []
    for mode in ("err", "eagain", "0,0:err"):
        for tr in ("raw", "ws"):
            for ks in ([0], [0, 1], [1, 0, 2]):
                st = [("connect", 0, tr, "local6"), ("connect", 1, "raw", "remote6"), ("connect", 2, "ws", "remote6"),
                      ("msg", 0, obj(method="add", params=obj(path="s", value=1), id=1)),
                      ("msg", 0, obj(method="add", params=obj(path="m"), id=2)),
                      ("msg", 2, obj(method="fetch", params=obj(id="f"), id=1)),
                      ("msg", 1, obj(method="set", params=obj(path="s", value=2), id="c1")),
                      ("msg", 2, obj(method="call", params=obj(path="m", args=[1]), id="h1")),
                      ("msg", 1, obj(method="call", params=obj(path="m", args=[2]), id="c2")),
                      ("wmode", 1, mode),
                      ("reply", 0, ks, "result", True),
                      ("msg", 0, obj(method="change", params=obj(path="s", value=5), id=3)),
                      ("msg", 2, obj(method="call", params=obj(path="m"), id="other")),
                      ("reply", 0, 3, "result", 7),
                      ("quiesce",), ("eof", 1), ("eof", 0), ("eof", 2), ("quiesce",)]
                out.append(Scenario(st, name="faulty-caller-batched-%s-%s-%s" % (mode.replace(",", "_").replace(":", "_"), tr, "".join(map(str, ks)))))
    return out


def subms_timeouts():
    """deadlines with sub-millisecond parts and values whose double lies just below the decimal: the armed interval is the
    exact conversion, never rounded down to a coarser unit"""
    out = []
    vals = [1.001, 1.003, 1.005, 0.0019, 2.0005, 0.0015, 0.001, 0.0010000000000000002, 4.999999999, 0.123456789, 1e-3 + 1e-9, 3.0000000005]
    for i in range(0, len(vals), 3):
        grp = vals[i:i + 3]
        st = [("connect", 0, "raw", "local6"), ("connect", 1, "ws", "remote6"),
              ("msg", 0, obj(method="add", params=obj(path="m"), id=1))]
        for k, v in enumerate(grp):
            st.append(("msg", 0, obj(method="add", params=obj(path="s%d" % k, value=0, timeout=v), id=10 + k)))
        for k, v in enumerate(grp):
            st.append(("msg", 1, obj(method="call", params=obj(path="m", timeout=v), id="c%d" % k)))
            st.append(("msg", 1, obj(method="set", params=obj(path="s%d" % k, value=1), id="e%d" % k)))
            st.append(("msg", 1, obj(method="set", params=obj(path="s%d" % k, value=1, timeout=grp[(k + 1) % len(grp)]), id="o%d" % k)))
        st += [("advance", 900000), ("advance", 100000), ("advance", 1000000), ("advance", 10 ** 9), ("advance", 5 * 10 ** 9),
               ("quiesce",), ("eof", 1), ("eof", 0), ("quiesce",)]
        out.append(Scenario(st, name="subms-timeouts-%d" % i))
    return out


def reauth_after_fetch():
    """a peer that holds fetches tries to authenticate (again, as somebody else): whatever the daemon answers, the fetch must
    be detached from every element when the peer leaves and the replica must follow the rights actually in force"""
    out = []
    allg = ["g0", "g1"]
    users = [
        {"name": "root", "password": "toor!pw", "auth": obj(fetchGroups=allg, setGroups=allg, callGroups=allg), "readonly": False, "admin": True},
        {"name": "u0", "password": "u0-pw", "auth": obj(fetchGroups=["g0"], setGroups=["g0"], callGroups=["g0"]), "readonly": False, "admin": False},
        {"name": "u1", "password": "u1-pw", "auth": obj(fetchGroups=["g1"], setGroups=["g1"], callGroups=["g1"]), "readonly": False, "admin": False},
        {"name": "nothing", "password": "nothing-pw", "auth": obj(), "readonly": False, "admin": False},
    ]
    pw = {u["name"]: u["password"] for u in users}
    pw["u0!wrong"] = "not-the-password"
    pw["nobody"] = "whatever"
    for first, second in (("u0", "u1"), ("u0", "nothing"), ("u1", "u0"), ("root", "nothing"), (None, "u0"), ("u0", "u0"),
                          ("u0", "u0!wrong"), ("u1", "nobody"), ("root", "u0!wrong")):
        for tr in ("raw", "ws"):
            st = [("connect", 0, "raw", "local6"), ("connect", 1, tr, "remote6"),
                  ("msg", 0, obj(method="authenticate", params=obj(user="root", password=pw["root"]), id=1)),
                  ("msg", 0, obj(method="add", params=obj(path="s0", value=1, access=obj(fetchGroups=["g0"], setGroups=["g0"])), id=2)),
                  ("msg", 0, obj(method="add", params=obj(path="s1", value=1, access=obj(fetchGroups=["g1"], setGroups=["g1"])), id=3))]
            if first:
                st.append(("msg", 1, obj(method="authenticate", params=obj(user=first, password=pw[first]), id=10)))
            st += [("msg", 1, obj(method="fetch", params=obj(id="f"), id=11)),
                   ("msg", 1, obj(method="authenticate", params=obj(user=second.split("!")[0], password=pw[second]), id=12)),
                   ("msg", 0, obj(method="change", params=obj(path="s0", value=2), id=4)),
                   ("msg", 0, obj(method="change", params=obj(path="s1", value=2), id=5)),
                   ("msg", 1, obj(method="get", params=obj(), id=13)),
                   ("msg", 1, obj(method="unfetch", params=obj(id="f"), id=14)) if tr == "ws" else ("quiesce",),
                   ("eof", 1), ("quiesce",),
                   ("msg", 0, obj(method="change", params=obj(path="s0", value=3), id=6)),
                   ("msg", 0, obj(method="change", params=obj(path="s1", value=3), id=7)),
                   ("msg", 0, obj(method="remove", params=obj(path="s0"), id=8)),
                   ("quiesce",), ("eof", 0), ("quiesce",)]
            out.append(Scenario(st, users=users, name="reauth-after-fetch-%s-%s-%s" % (first, second, tr)))
    return out


def no_groups_file():
    """a credential file that loads but names no group at all: access control is ON and nobody shares a group with anything"""
    out = []
    users = [
        {"name": "alice", "password": "pw-alice", "auth": obj(), "readonly": False, "admin": False},
        {"name": "bob", "password": "bobsecret", "auth": obj(fetchGroups=[], setGroups=[], callGroups=[]), "readonly": False, "admin": True},
        {"name": "carol", "password": "carol-pw", "auth": None, "readonly": False, "admin": False},
    ]
    for who in (None, "alice", "bob", "carol"):
        for tr in ("raw", "ws"):
            st = [("connect", 0, "raw", "local6"), ("connect", 1, tr, "remote6"),
                  ("msg", 0, obj(method="add", params=obj(path="s", value=1), id=1)),
                  ("msg", 0, obj(method="add", params=obj(path="m"), id=2)),
                  ("msg", 0, obj(method="add", params=obj(path="g", value=1, access=obj(fetchGroups=["g0"], setGroups=["g0"])), id=3))]
            if who:
                pwd = [u["password"] for u in users if u["name"] == who][0]
                st.append(("msg", 1, obj(method="authenticate", params=obj(user=who, password=pwd), id=9)))
            st += [("msg", 1, obj(method="fetch", params=obj(id="f"), id=10)),
                   ("msg", 1, obj(method="get", params=obj(), id=11)),
                   ("msg", 1, obj(method="set", params=obj(path="s", value=2), id=12)),
                   ("msg", 1, obj(method="call", params=obj(path="m"), id=13)),
                   ("msg", 0, obj(method="change", params=obj(path="s", value=3), id=4)),
                   ("quiesce",), ("eof", 1), ("eof", 0), ("quiesce",)]
            out.append(Scenario(st, users=users, groups=[], name="no-groups-file-%s-%s" % (who, tr)))
    return out


def orphan_routes():
    """a routed request is still in flight when its element is removed (the owner may own nothing else any more); then the
    caller leaves, and afterwards the owner answers / the deadline passes / the owner leaves: the entry must have gone with the caller"""
    out = []
    for kind in ("state", "method"):
        for keep_other in (False, True):
            for ending in ("reply", "timeout", "owner-leaves", "term"):
                for tr in ("raw", "ws"):
                    st = [("connect", 0, "raw", "local6"), ("connect", 1, tr, "remote6"), ("connect", 2, "raw", "remote6"),
                          ("msg", 0, obj(method="add", params=(obj(path="e", value=1) if kind == "state" else obj(path="e")), id=1))]
                    if keep_other:
                        st.append(("msg", 0, obj(method="add", params=obj(path="other", value=0), id=2)))
                    req = obj(method="set", params=obj(path="e", value=2), id="r1") if kind == "state" else obj(method="call", params=obj(path="e", args=[1]), id="r1")
                    st += [("msg", 1, req),
                           ("msg", 2, obj(method=("set" if kind == "state" else "call"), params=(obj(path="e", value=3) if kind == "state" else obj(path="e")), id="r2")),
                           ("msg", 0, obj(method="remove", params=obj(path="e"), id=3)),
                           ("quiesce",), ("eof", 1), ("quiesce",)]
                    if ending == "reply":
                        st += [("reply", 0, 0, "result", True), ("reply", 0, 1, "result", True)]
                    elif ending == "timeout":
                        st += [("advance", 6 * 10 ** 9)]
                    elif ending == "owner-leaves":
                        st += [("eof", 0)]
                    if ending != "term":
                        st += [("quiesce",), ("connect", 3, "raw", "local6"), ("msg", 3, obj(method="info", id="alive")),
                               ("eof", 2), ("eof", 0) if ending != "owner-leaves" else ("quiesce",), ("eof", 3), ("quiesce",)]
                    out.append(Scenario(st, name="orphan-routes-%s-%s-%s-%s" % (kind, "other" if keep_other else "last", ending, tr)))
    return out


def huge_timeouts():
    """timeouts at and beyond the largest value whose nanoseconds fit into 64 bits: the request is answered (refused), never
    dropped.  Outside the daemon model's domain (monitor-only, see run_scenario)."""
    out = []
    vals = [18446744073.0, 18446744074.0, 1.8446744073709552e10, 2e10, 1e11, 1e19, 1e300, 1.7976931348623157e308]
    for i, v in enumerate(vals):
        for tr in ("raw", "ws"):
            st = [("connect", 0, "raw", "local6"), ("connect", 1, tr, "remote6"),
                  ("msg", 0, obj(method="add", params=obj(path="big", value=1, timeout=v), id=1)),
                  ("msg", 0, obj(method="add", params=obj(path="s", value=1), id=2)),
                  ("msg", 0, obj(method="add", params=obj(path="m"), id=3)),
                  ("msg", 1, obj(method="set", params=obj(path="s", value=2, timeout=v), id="r1")),
                  ("msg", 1, obj(method="call", params=obj(path="m", timeout=v), id="r2")),
                  ("msg", 1, obj(method="set", params=obj(path="s", value=3, timeout=v))),
                  ("msg", 1, obj(method="get", params=obj(), id=4)),
                  ("msg", 1, obj(method="info", id=5)),
                  ("quiesce",), ("eof", 1), ("eof", 0), ("quiesce",)]
            out.append(Scenario(st, name="outside-model:huge-timeout-%d-%s" % (i, tr)))
    return out


def full_buffer_request():
    """a request that fills the read buffer to its last byte arrives while part of an outgoing frame still waits in the write
    buffer of the same connection; afterwards the socket becomes writable: the queued frame goes out undamaged"""
    from . import daemon as _D
    out = []

    def padded(n, idv):
        base = obj(method="info", id=idv)
        k = n - len(_D.jtext(base))
        return obj(method="info", id=idv + "p" * k) if k >= 0 else base
    fetch = obj(method="fetch", params=obj(id="f"), id=1)
    flen = 4 + len(_D.jtext(fetch))
    for n in (508, 507, 506, 300, 40):
        for budget in ("5,0:all", "1,0:all", "30,0,0:all", "4,0:all"):
            for tr in ("raw", "uds"):
                st = [("connect", 0, "raw", "local6"), ("connect", 1, tr, "unix" if tr == "uds" else "remote6"),
                      ("msg", 0, obj(method="add", params=obj(path="s", value="v" * 50), id=1)),
                      ("msg", 1, fetch),
                      # what the connection has sent so far now adds up to exactly one read buffer: the next request starts at
                      # the first byte of the buffer and a request of 508 bytes ends at its last
                      ("msg", 1, padded(512 - flen - 4, "fill")),
                      ("wmode", 1, budget),
                      ("msg", 0, obj(method="change", params=obj(path="s", value="w" * 60), id=2)),
                      ("msg", 1, padded(n, "q")),
                      ("msg", 0, obj(method="change", params=obj(path="s", value="z" * 10), id=3)),
                      ("writable", 1),
                      ("msg", 1, obj(method="get", params=obj(), id=2)),
                      ("quiesce",), ("eof", 1), ("eof", 0), ("quiesce",)]
                out.append(Scenario(st, name="full-buffer-request-%d-%s-%s" % (n, budget.replace(",", "_").replace(":", "_"), tr)))
    return out


def ws_control_under_faults(own=True):
    """WebSocket control frames (ping, pong, close, reserved opcodes, fragments) arrive while the daemon's writes to that peer
    fail, block or are cut short: the peer is released once, nobody else notices.  Control frames are outside the daemon model
    (monitor-only): judged by sanitizers, hygiene, the wire monitor and the property monitors."""
    from . import simlog as _L
    out = []
    frames = [("ping", _L.ws_frame(b"hi", opcode=9)), ("ping-empty", _L.ws_frame(b"", opcode=9)), ("ping-125", _L.ws_frame(b"p" * 125, opcode=9)),
              ("pong", _L.ws_frame(b"x", opcode=10)), ("close", _L.ws_frame(b"\x03\xe8bye", opcode=8)), ("close-empty", _L.ws_frame(b"", opcode=8)),
              ("reserved", _L.ws_frame(b"zz", opcode=3)), ("unmasked-ping", _L.ws_frame(b"hi", opcode=9, masked=False)),
              ("garbage-text", _L.ws_frame(b"{broken", opcode=1)), ("two-pings", _L.ws_frame(b"a", opcode=9) + _L.ws_frame(b"b", opcode=9))]
    for fname, fr in frames:
        for mode in ("err", "eagain", "0,0:err", "1,0:all", "all"):
            st = [("connect", 0, "raw", "local6"), ("connect", 1, "ws", "remote6"), ("connect", 2, "raw", "remote6"),
                  ("msg", 0, obj(method="add", params=obj(path="s", value=1), id=1)),
                  ("msg", 1 if own else 0, obj(method="add", params=obj(path="w", value=1), id=1 if own else 7)),
                  ("msg", 1, obj(method="fetch", params=obj(id="f"), id=2)),
                  ("msg", 2, obj(method="fetch", params=obj(id="g"), id=1)),
                  ("msg", 2, obj(method="set", params=obj(path="w", value=2), id="r1")),
                  ("wmode", 1, mode),
                  ("partial", 1, fr),
                  ("msg", 0, obj(method="change", params=obj(path="s", value=2), id=2)),
                  ("partial", 1, fr),
                  ("writable", 1),
                  ("msg", 2, obj(method="get", params=obj(), id=2)),
                  ("advance", 6 * 10 ** 9),
                  ("quiesce",), ("eof", 1), ("eof", 0), ("eof", 2), ("quiesce",)]
            out.append(Scenario(st, name="outside-model:ws-control-%s-%s-%s" % (fname, mode.replace(",", "_").replace(":", "_"), "owner" if own else "subscriber")))
    return out


def timeout_spellings():
    """the `timeout` member of set/call/add in other spellings and given twice: every handler reads the member the way it
    reads all others (first match, any case), so precedence and refusals follow that member"""
    out = []
    forms = [[("Timeout", 0.25)], [("TIMEOUT", 0.25)], [("timeouT", 0.25), ("timeout", 2.0)], [("timeout", 2.0), ("TIMEOUT", 0.25)],
             [("TIMEOUT", True), ("timeout", 1.0)], [("Timeout", 0.0001)], [("Timeout", "x")], [("timeout", 0.5)]]
    for i, tm in enumerate(forms):
        for tr in ("raw", "ws"):
            st = [("connect", 0, "raw", "local6"), ("connect", 1, tr, "remote6"),
                  ("msg", 0, obj(("method", "add"), ("params", obj(*([("path", "e"), ("value", 1)] + tm))), ("id", 1))),
                  ("msg", 0, obj(method="add", params=obj(path="s", value=1, timeout=3), id=2)),
                  ("msg", 0, obj(method="add", params=obj(path="m"), id=3)),
                  ("msg", 1, obj(("method", "set"), ("params", obj(*([("path", "s"), ("value", 2)] + tm))), ("id", "r1"))),
                  ("msg", 1, obj(("method", "call"), ("params", obj(*([("path", "m")] + tm))), ("id", "r2"))),
                  ("msg", 1, obj(method="set", params=obj(path="e", value=5), id="r3")),
                  ("advance", 300000000), ("advance", 800000000), ("advance", 1500000000), ("advance", 4 * 10 ** 9),
                  ("quiesce",), ("eof", 1), ("eof", 0), ("quiesce",)]
            out.append(Scenario(st, name="timeout-spellings-%d-%s" % (i, tr)))
    return out


LOCKED_SENTINEL = "\x01never-sent-by-any-scenario\x02"


def locked_accounts():
    """accounts whose stored password field is not a hash any password produces (locked `*`, `!`, empty, a bare salt, a
    truncated hash): no password authenticates them, on any transport, and a failed attempt changes nothing"""
    out = []
    allg = ["g0", "g1"]
    stored = ["*", "!", "", "$6$verifsalt$", "$6$verifsalt$abc", "x", "*LK*"]
    for i, sf in enumerate(stored):
        users = [
            {"name": "root", "password": "toor!pw", "auth": obj(fetchGroups=allg, setGroups=allg, callGroups=allg), "readonly": False, "admin": True},
            {"name": "locked", "password": LOCKED_SENTINEL, "stored": sf, "auth": obj(fetchGroups=allg, setGroups=allg, callGroups=allg), "readonly": False, "admin": True},
        ]
        for tr in ("raw", "ws"):
            st = [("connect", 0, "raw", "local6"), ("connect", 1, tr, "remote6"),
                  ("msg", 0, obj(method="authenticate", params=obj(user="root", password="toor!pw"), id=1)),
                  ("msg", 0, obj(method="add", params=obj(path="s", value=1, access=obj(fetchGroups=["g0"], setGroups=["g1"])), id=2)),
                  ("msg", 0, obj(method="add", params=obj(path="m", access=obj(fetchGroups=["g1"], callGroups=["g0"])), id=3))]
            n = 10
            for pw_try in ("anything", "", sf, "*", "toor!pw", "x" * 40):
                st.append(("msg", 1, obj(method="authenticate", params=obj(user="locked", password=pw_try), id=n)))
                n += 1
            st += [("msg", 1, obj(method="get", params=obj(), id=n)),
                   ("msg", 1, obj(method="set", params=obj(path="s", value=2), id=n + 1)),
                   ("msg", 1, obj(method="call", params=obj(path="m"), id=n + 2)),
                   ("msg", 1, obj(method="fetch", params=obj(id="f"), id=n + 3)),
                   ("msg", 1, obj(method="passwd", params=obj(user="root", password="owned"), id=n + 4)),
                   ("msg", 0, obj(method="change", params=obj(path="s", value=3), id=4)),
                   ("quiesce",), ("eof", 1), ("eof", 0), ("quiesce",)]
            out.append(Scenario(st, users=users, name="locked-account-%d-%s" % (i, tr)))
    return out


def long_paths():
    """paths and values longer than 255 and than 65535 bytes (build with a large message size): every operation names the
    element by its whole path"""
    out = []
    for L in (70000, 65536, 65539, 65535, 300):
        long = "a" * L
        pre = long[:L % 65536] if L >= 65536 else long[:L % 256]
        for tr in ("raw", "ws"):
            st = [("connect", 0, "raw", "local6"), ("connect", 1, tr, "remote6"),
                  ("msg", 0, obj(method="add", params=obj(path=long, value=1), id=1)),
                  ("msg", 1, obj(method="add", params=obj(path=long, value=2), id=1)),
                  ("msg", 0, obj(method="add", params=obj(path=pre or "p", value=3), id=2)),
                  ("msg", 0, obj(method="remove", params=obj(path=pre or "p"), id=3)),
                  ("msg", 1, obj(method="add", params=obj(path=long, value=4), id=2)),
                  ("msg", 0, obj(method="change", params=obj(path=long, value="v" * 1000), id=4)),
                  ("msg", 0, obj(method="remove", params=obj(path=long), id=5)),
                  ("msg", 1, obj(method="add", params=obj(path=long, value=5), id=3)),
                  ("msg", 1, obj(method="get", params=obj(path=obj(startsWith="aaaa")), id=4)),
                  ("quiesce",), ("eof", 1), ("eof", 0), ("quiesce",)]
            out.append(Scenario(st, variant="bigmsg", name="long-paths-%d-%s" % (L, tr)))
    return out


def escaped_ids():
    """request ids whose JSON rendering is several times longer than the id itself (quotes, control characters, line feeds,
    backslashes), for routed requests that the DAEMON has to answer (timeout, owner leaves) and that the owner answers"""
    out = []
    ids = ['"' * 100, "\n" * 120, "\x01" * 30, "\\" * 64, "é" * 60, 'a"b\\c\n' * 20, "\x7f" * 100, "\t\r\b\f" * 30]
    for i, idv in enumerate(ids):
        for ending in ("timeout", "owner-leaves", "reply", "reply-error"):
            st = [("connect", 0, "raw", "local6"), ("connect", 1, "ws", "remote6"), ("connect", 2, "raw", "remote6"),
                  ("msg", 0, obj(method="add", params=obj(path="s", value=1), id=1)),
                  ("msg", 0, obj(method="add", params=obj(path="m"), id=2)),
                  ("msg", 1, obj(method="set", params=obj(path="s", value=2), id=idv)),
                  ("msg", 2, obj(method="call", params=obj(path="m", args=[1]), id=idv)),
                  ("msg", 1, obj(method="info", id=idv)),
                  ("msg", 2, obj(method="remove", params=obj(path="nosuch"), id=idv))]
            if ending == "timeout":
                st += [("advance", 6 * 10 ** 9)]
            elif ending == "owner-leaves":
                st += [("eof", 0)]
            elif ending == "reply":
                st += [("reply", 0, 0, "result", True), ("reply", 0, 1, "result", [1])]
            else:
                st += [("reply", 0, 0, "error", obj(code=1, message="no")), ("reply", 0, 1, "error", obj(code=2, message="no"))]
            st += [("quiesce",), ("eof", 1), ("eof", 2)] + ([("eof", 0)] if ending != "owner-leaves" else []) + [("quiesce",)]
            out.append(Scenario(st, name="escaped-ids-%d-%s" % (i, ending)))
    return out


def abandoned_requests(n=70):
    """many callers in a row route a request to one long-lived owner and leave before it answers; afterwards a fresh caller's
    request is still routed and answered (no per-owner bookkeeping may drift)"""
    out = []
    for kind in ("state", "method"):
        for per_caller in (1, 4):
            st = [("connect", 0, "raw", "local6"),
                  ("msg", 0, obj(method="add", params=(obj(path="e", value=1) if kind == "state" else obj(path="e")), id=1))]
            c = 1
            sent = 0
            while sent < n:
                st.append(("connect", c, "raw" if c % 3 else "ws", "remote6"))
                for k in range(per_caller):
                    st.append(("msg", c, obj(method=("set" if kind == "state" else "call"), params=(obj(path="e", value=sent) if kind == "state" else obj(path="e", args=[sent])), id="a%d" % sent)))
                    sent += 1
                st.append(("eof", c))
                c += 1
            st += [("quiesce",), ("connect", c, "raw", "remote6"),
                   ("msg", c, obj(method=("set" if kind == "state" else "call"), params=(obj(path="e", value=-1) if kind == "state" else obj(path="e")), id="fresh")),
                   ("reply", 0, sent, "result", "served"),
                   ("msg", c, obj(method="get", params=obj(), id=2)),
                   ("quiesce",), ("eof", c), ("eof", 0), ("quiesce",)]
            out.append(Scenario(st, name="abandoned-requests-%s-%d" % (kind, per_caller)))
    return out


def write_error_after_progress():
    """the kernel takes part of a frame, then fails hard; later it would accept again, other frames are produced for that
    connection and finally the connection is released: nothing more may reach the wire after the torn frame"""
    out = []
    for budget in ("5:err", "1:err", "30,7:err", "4,0,3:err", "120:err"):
        for role in ("subscriber", "caller", "owner"):
            for tr in ("raw", "ws"):
                st = [("connect", 0, "raw", "local6"), ("connect", 1, tr, "remote6"), ("connect", 2, "raw", "remote6"),
                      ("msg", 0, obj(method="add", params=obj(path="s", value="v" * 40), id=1)),
                      ("msg", 0, obj(method="add", params=obj(path="m"), id=2)),
                      ("msg", 2, obj(method="fetch", params=obj(id="g"), id=1))]
                if role == "subscriber":
                    st += [("msg", 1, obj(method="fetch", params=obj(id="f"), id=1)), ("wmode", 1, budget),
                           ("msg", 0, obj(method="change", params=obj(path="s", value="w" * 90), id=3))]
                elif role == "caller":
                    st += [("msg", 1, obj(method="set", params=obj(path="s", value=2), id="r1")), ("wmode", 1, budget),
                           ("reply", 0, 0, "result", "x" * 80)]
                else:
                    st += [("msg", 1, obj(method="add", params=obj(path="mine", value=1), id=1)), ("wmode", 1, budget),
                           ("msg", 2, obj(method="set", params=obj(path="mine", value="y" * 70), id="r2"))]
                st += [("msg", 0, obj(method="change", params=obj(path="s", value="z"), id=4)),
                       ("wmode", 1, "all"),
                       ("msg", 0, obj(method="change", params=obj(path="s", value="zz"), id=5)),
                       ("msg", 2, obj(method="get", params=obj(), id=2)),
                       ("quiesce",), ("eof", 1), ("quiesce",), ("eof", 0), ("eof", 2), ("quiesce",)]
                out.append(Scenario(st, name="write-error-after-progress-%s-%s-%s" % (budget.replace(",", "_").replace(":", "_"), role, tr)))
    return out


def fetch_only_rules():
    """a fetch-only state refuses set from everybody (owner included) whatever else is going on around it: fetches attached
    and detached, the value changed by its owner, other elements of the same owner being set"""
    out = []
    for tr in ("raw", "ws"):
        for who in (0, 1, 2):
            st = [("connect", 0, "raw", "local6"), ("connect", 1, tr, "remote6"), ("connect", 2, "raw", "remote6"),
                  ("msg", 0, obj(method="add", params=obj(path="ro", value=1, fetchOnly=True), id=1)),
                  ("msg", 0, obj(method="add", params=obj(path="rw", value=1, fetchOnly=False), id=2)),
                  ("msg", 0, obj(method="add", params=obj(path="m"), id=3)),
                  ("msg", who, obj(method="set", params=obj(path="ro", value=2), id="s0")),
                  ("msg", 1, obj(method="fetch", params=obj(id="f", path=obj(startsWith="r")), id=10)),
                  ("msg", who, obj(method="set", params=obj(path="ro", value=3), id="s1")),
                  ("msg", 2, obj(method="fetch", params=obj(id="g"), id=10)),
                  ("msg", who, obj(method="set", params=obj(path="ro", value=4), id="s2")),
                  ("msg", who, obj(method="set", params=obj(path="rw", value=4), id="s3")),
                  ("msg", who, obj(method="call", params=obj(path="ro"), id="s4")),
                  ("msg", who, obj(method="set", params=obj(path="m", value=1), id="s5")),
                  ("msg", 0, obj(method="change", params=obj(path="ro", value=5), id=4)),
                  ("msg", 1, obj(method="unfetch", params=obj(id="f"), id=11)),
                  ("msg", who, obj(method="set", params=obj(path="ro", value=6), id="s6")),
                  ("eof", 2), ("quiesce",),
                  ("msg", 1, obj(method="set", params=obj(path="ro", value=7), id="s7")),
                  ("reply", 0, 0, "result", True),
                  ("quiesce",), ("eof", 1), ("eof", 0), ("quiesce",)]
            out.append(Scenario(st, name="fetch-only-rules-%s-%d" % (tr, who)))
    return out


_BUCKETS = {}


def _path_buckets(variant="default"):
    """bucket -> path names, computed with the TREE's own string hash and element table order (harness/util/pathhash.c)"""
    from . import common as C
    import collections
    import os
    import subprocess
    key = (C.SRC, variant)
    if key not in _BUCKETS:
        b = C.cc_build("pathhash", [os.path.join(C.ROOT, "harness", "util", "pathhash.c")], variant=variant, sanitize=False)
        out = subprocess.run([b, "300000", "h/"], stdout=subprocess.PIPE).stdout.decode().split("\n")
        bk = collections.defaultdict(list)
        for l in out:
            if l:
                a, nm = l.split(" ", 1)
                bk[int(a)].append(nm)
        _BUCKETS[key] = (bk, 1 << int(C.config_values(variant)["CONFIG_ELEMENT_TABLE_ORDER"]))
    return _BUCKETS[key]


def colliding_paths():
    """paths chosen with the tree's own hash function so that they meet in the path index: several in one bucket (with the one
    stored first removed again), a run of 33 occupied slots that forces an entry to be moved into a slot another bucket just
    vacated, and a bucket whose neighbourhood is full (the refused add must leave every stored path findable)"""
    try:
        bk, size = _path_buckets()
    except Exception:
        return []
    out = []
    ok = [h for h in sorted(bk) if all(len(bk[(h + d) % size]) >= (36 if d == 0 else (12 if d == 32 else 3)) for d in range(0, 34))]
    if not ok:
        return out
    H = ok[len(ok) // 2]

    def nm(b, k=0):
        return bk[b % size][k]
    # S1: three paths of one bucket, the first removed again
    for tr in ("raw", "ws"):
        p1, p2, p3 = nm(H, 0), nm(H, 1), nm(H, 2)
        st = [("connect", 0, "raw", "local6"), ("connect", 1, tr, "remote6"), ("connect", 2, "raw", "remote6"),
              ("msg", 2, obj(method="fetch", params=obj(id="all"), id=1)),
              ("msg", 0, obj(method="add", params=obj(path=p1, value=1), id=1)),
              ("msg", 1, obj(method="add", params=obj(path=p2, value=2), id=1)),
              ("msg", 1, obj(method="add", params=obj(path=p3, value=3), id=2)),
              ("msg", 0, obj(method="remove", params=obj(path=p1), id=2)),
              ("msg", 1, obj(method="change", params=obj(path=p2, value=22), id=3)),
              ("msg", 1, obj(method="change", params=obj(path=p3, value=33), id=4)),
              ("msg", 0, obj(method="add", params=obj(path=p2, value=9), id=3)),
              ("msg", 0, obj(method="set", params=obj(path=p3, value=8), id="r1")),
              ("msg", 2, obj(method="get", params=obj(), id=2)),
              ("msg", 0, obj(method="add", params=obj(path=p1, value=5), id=4)),
              ("msg", 1, obj(method="remove", params=obj(path=p2), id=5)),
              ("msg", 2, obj(method="get", params=obj(), id=3)),
              ("quiesce",), ("eof", 1), ("quiesce",), ("eof", 0), ("eof", 2), ("quiesce",)]
        out.append(Scenario(st, name="colliding-paths-one-bucket-%s" % tr))
    # S2: slots F-32..F-1 occupied by their own buckets' paths, two paths at home F, the first of them removed, then one more
    # path with home F-32: an entry has to move into the vacated slot
    F = H + 33
    st = [("connect", 0, "raw", "local6"), ("connect", 1, "raw", "remote6"), ("connect", 2, "ws", "remote6"),
          ("msg", 2, obj(method="fetch", params=obj(id="all"), id=1))]
    n = 1
    for d in range(32, 0, -1):
        st.append(("msg", 0, obj(method="add", params=obj(path=nm(F - d, 0), value=d), id=n)))
        n += 1
    y, z = nm(F, 0), nm(F, 1)
    st += [("msg", 1, obj(method="add", params=obj(path=y, value="y"), id=1)),
           ("msg", 1, obj(method="add", params=obj(path=z, value="z"), id=2)),
           ("msg", 1, obj(method="remove", params=obj(path=y), id=3)),
           ("msg", 0, obj(method="add", params=obj(path=nm(F - 32, 1), value="k"), id=n)),
           ("msg", 1, obj(method="change", params=obj(path=z, value="z2"), id=4)),
           ("msg", 0, obj(method="add", params=obj(path=z, value="dup"), id=n + 1)),
           ("msg", 0, obj(method="change", params=obj(path=nm(F - 32, 1), value="k2"), id=n + 2)),
           ("msg", 0, obj(method="change", params=obj(path=nm(F - 1, 0), value="last"), id=n + 3)),
           ("msg", 2, obj(method="get", params=obj(), id=2)),
           ("msg", 1, obj(method="remove", params=obj(path=z), id=5)),
           ("msg", 2, obj(method="get", params=obj(path=obj(equals=z)), id=3)),
           ("quiesce",), ("eof", 0), ("eof", 1), ("eof", 2), ("quiesce",)]
    out.append(Scenario(st, name="colliding-paths-displacement"))
    # S3: 32 paths of bucket H, 9 of bucket H+32, then a 33rd for H (cannot be stored): everything stored stays findable
    st = [("connect", 0, "raw", "local6"), ("connect", 1, "raw", "remote6")]
    n = 1
    stored = []
    for k in range(32):
        st.append(("msg", 0, obj(method="add", params=obj(path=nm(H, k), value=k), id=n)))
        stored.append(nm(H, k))
        n += 1
    for k in range(9):
        st.append(("msg", 0, obj(method="add", params=obj(path=nm(H + 32, k), value=100 + k), id=n)))
        stored.append(nm(H + 32, k))
        n += 1
    st.append(("msg", 1, obj(method="add", params=obj(path=nm(H, 33), value="one too many"), id=1)))
    for p in stored[::3]:
        st.append(("msg", 0, obj(method="change", params=obj(path=p, value="still here"), id=n)))
        n += 1
    st += [("msg", 1, obj(method="get", params=obj(), id=2)), ("msg", 0, obj(method="remove", params=obj(path=stored[0]), id=n)),
           ("msg", 1, obj(method="add", params=obj(path=nm(H, 33), value="now it fits"), id=3)),
           ("msg", 1, obj(method="get", params=obj(path=obj(equals=nm(H, 33))), id=4)),
           ("quiesce",), ("eof", 0), ("eof", 1), ("quiesce",)]
    out.append(Scenario(st, name="colliding-paths-full-neighbourhood"))
    return out


def idless_refusals():
    """requests without an id that must be refused (change / remove by a non-owner, change of a method, add of a taken path):
    nobody is told, and nothing may happen either"""
    out = []
    for tr in ("raw", "ws"):
        st = [("connect", 0, "raw", "local6"), ("connect", 1, tr, "remote6"), ("connect", 2, "raw", "remote6"),
              ("msg", 2, obj(method="fetch", params=obj(id="all"), id=1)),
              ("msg", 0, obj(method="add", params=obj(path="s", value=1), id=1)),
              ("msg", 0, obj(method="add", params=obj(path="m"), id=2)),
              ("msg", 1, obj(method="change", params=obj(path="s", value="stolen"))),
              ("msg", 1, obj(("method", "change"), ("params", obj(path="s", value="stolen2")), ("id", True))),
              ("msg", 0, obj(method="change", params=obj(path="m", value="now a state"))),
              ("msg", 1, obj(method="remove", params=obj(path="s"))),
              ("msg", 1, obj(method="add", params=obj(path="s", value="second"))),
              ("msg", 1, [obj(method="change", params=obj(path="s", value=5)), obj(method="remove", params=obj(path="m"))]),
              ("quiesce",),
              ("msg", 2, obj(method="get", params=obj(), id=2)),
              ("msg", 1, obj(method="set", params=obj(path="m", value=1), id="r1")),
              ("msg", 0, obj(method="change", params=obj(path="s", value=2), id=3)),
              ("quiesce",), ("eof", 1), ("eof", 0), ("eof", 2), ("quiesce",)]
        out.append(Scenario(st, name="idless-refusals-%s" % tr))
    return out


def fetcher_table_churn():
    """more fetches on one element than its first fetcher table holds, from several peers; some unfetch, one peer leaves, the
    rest must keep following the element through change, remove and re-add (the table may grow, be compacted or shrink)"""
    out = []
    for nf in (5, 6, 9):
        for tr in ("raw", "ws"):
            st = [("connect", 0, "raw", "local6")] + [("connect", 1 + i, tr if i % 2 else "raw", "remote6") for i in range(nf)]
            st.append(("msg", 0, obj(method="add", params=obj(path="e", value=0), id=1)))
            for i in range(nf):
                st.append(("msg", 1 + i, obj(method="fetch", params=obj(id="f%d" % i, path=obj(startsWith="e")), id=1)))
            st += [("msg", 1, obj(method="unfetch", params=obj(id="f0"), id=2)),
                   ("msg", 2, obj(method="unfetch", params=obj(id="f1"), id=2)),
                   ("eof", 3), ("quiesce",),
                   ("msg", 0, obj(method="change", params=obj(path="e", value=1), id=2))]
            for i in range(3, nf - 1):
                st.append(("msg", 1 + i, obj(method="unfetch", params=obj(id="f%d" % i), id=3)))
            st += [("msg", 0, obj(method="change", params=obj(path="e", value=2), id=3)),
                   ("msg", 0, obj(method="remove", params=obj(path="e"), id=4)),
                   ("msg", 0, obj(method="add", params=obj(path="e", value=3), id=5)),
                   ("msg", 1, obj(method="fetch", params=obj(id="again", path=obj(equals="e")), id=4)),
                   ("msg", 0, obj(method="change", params=obj(path="e", value=4), id=6)),
                   ("quiesce",)] + [("eof", 1 + i) for i in range(nf) if i != 2] + [("eof", 0), ("quiesce",)]
            out.append(Scenario(st, name="fetcher-table-churn-%d-%s" % (nf, tr)))
    return out


def requester_backpressure():
    """a client sends requests and does not read: the answers fill the socket and then the write buffer; from then on the
    connection is closed or every accepted request is still answered in order - never open with answers silently missing"""
    out = []
    for tr in ("raw", "uds", "ws"):
        for mode in ("eagain", "300,0:eagain", "0:eagain"):
            for single in (True, False):
                st = [("connect", 0, tr, "unix" if tr == "uds" else "local6"), ("connect", 1, "raw", "remote6"),
                      ("msg", 1, obj(method="add", params=obj(path="s", value="v" * 100), id=1)),
                      ("wmode", 0, mode)]
                reqs = [obj(method="get", params=obj(), id=100 + i) if i % 2 else obj(method="info", id=100 + i) for i in range(70)]
                if single:
                    st += [("msg", 0, r_) for r_ in reqs]
                else:
                    for k in range(0, 70, 10):
                        st.append(("msg", 0, reqs[k:k + 10]))
                st += [("wmode", 0, "all"), ("writable", 0),
                       ("msg", 0, obj(method="info", id="after")),
                       ("msg", 1, obj(method="get", params=obj(), id=2)),
                       ("quiesce",), ("eof", 0), ("eof", 1), ("quiesce",)]
                out.append(Scenario(st, name="requester-backpressure-%s-%s-%s" % (tr, mode.replace(",", "_").replace(":", "_"), "single" if single else "batches")))
    return out


def split_upgrade_interleaved():
    """a WebSocket upgrade request arrives in two pieces (cut at every line end and inside the header block) and between the
    pieces another HTTP connection is accepted (silent, refused with 404, or upgrading itself): the first connection is
    upgraded and served exactly as if its request had come in one piece"""
    from . import simlog as _L
    out = []
    up = _L.ws_upgrade()
    cuts = [i + 2 for i in range(len(up) - 2) if up[i:i + 2] == b"\r\n"][:-1] + [20, len(up) - 3, len(up) - 1]
    for ci, cut in enumerate(sorted(set(cuts))):
        for other in ("silent", "404", "upgrade"):
            st = [("connect", 0, "raw", "local6"),
                  ("msg", 0, obj(method="add", params=obj(path="s", value=1), id=1)),
                  ("connect_http", 1, "remote6"),
                  ("partial", 1, up[:cut]),
                  ("connect_http", 2, "remote6")]
            if other == "404":
                st.append(("partial", 2, b"GET /nope HTTP/1.1\r\nHost: x\r\n\r\n"))
            elif other == "upgrade":
                st.append(("partial", 2, up))
            st += [("partial", 1, up[cut:]),
                   ("msg", 1, obj(method="fetch", params=obj(id="f"), id=1)),
                   ("msg", 0, obj(method="change", params=obj(path="s", value=2), id=2)),
                   ("msg", 1, obj(method="info", id=2)),
                   ("quiesce",), ("eof", 1), ("eof", 2), ("eof", 0), ("quiesce",)]
            out.append(Scenario(st, name="split-upgrade-%d-%s" % (ci, other)))
    return out
