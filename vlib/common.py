"""Shared machinery for every property check of /verif.

Everything a property module needs lives here:
  * paths (ROOT = /verif, REPO = /repo or $VERIF_REPO, WORK = ROOT/work, git-ignored)
  * gen_config(variant)        -> directory with cjet_config.h / os_config.h / version.h
                                  generated from /repo's templates + cmake/defaults.cmake
  * cc_build(name, ...)        -> cached build of a C harness against /repo's *current* sources
  * lean_build()               -> regenerate constants, `lake build` (library + cjetdrv)
  * lean_audit(prop_id)        -> obligations / discharged / axioms per theorem / forbidden tokens
  * run_drv(component, text)   -> run the model driver on a script
  * Evidence, violation(), known findings
A property module exposes `run(ctx) -> Outcome`; `check` (the entry point) does the rest.
"""
import fcntl
import glob
import hashlib
import json
import os
import random
import re
import shutil
import subprocess
import sys
import time

ROOT = os.path.dirname(os.path.dirname(os.path.abspath(__file__)))
REPO = os.environ.get("VERIF_REPO", "/repo")
SRC = os.path.join(REPO, "src")
WORK = os.path.join(ROOT, "work")
LEAN = os.path.join(ROOT, "lean")
# evidence of /repo itself is the deliverable; a run against another tree (VERIF_REPO, used for seeded changes) keeps its
# evidence apart so that the committed files always describe /repo
EVID = os.path.join(ROOT, "evidence") if REPO == "/repo" else os.path.join(ROOT, "work", "evidence-other-tree")
REPLAYS = os.path.join(ROOT, "replays")
NPROC = os.cpu_count() or 4

ALLOWED_AXIOMS = {"propext", "Classical.choice", "Quot.sound"}
FORBIDDEN = re.compile(
    r"\bsorry\b|\badmit\b|^\s*axiom\s|\bnative_decide\b|\bbv_decide\b|implemented_by|\bunsafe\s|maxHeartbeats\s+0\b|\bofReduceBool\b|^\s*@\[extern",
    re.M)


def log(*a):
    print(*a, file=sys.stderr, flush=True)


def sh(cmd, cwd=None, inp=None, timeout=None, env=None, check=False):
    """Run a command, return (rc, stdout, stderr) with text decoded leniently."""
    e = dict(os.environ)
    if env:
        e.update(env)
    p = subprocess.run(cmd, cwd=cwd, input=inp, stdout=subprocess.PIPE, stderr=subprocess.PIPE,
                       timeout=timeout, env=e, shell=isinstance(cmd, str))
    out = p.stdout.decode("utf-8", "replace") if isinstance(p.stdout, bytes) else p.stdout
    err = p.stderr.decode("utf-8", "replace") if isinstance(p.stderr, bytes) else p.stderr
    if check and p.returncode != 0:
        raise RuntimeError("command failed (%d): %s\n%s\n%s" % (p.returncode, cmd, out[-4000:], err[-4000:]))
    return p.returncode, out, err


# --------------------------------------------------------------------------- seeds

def base_seed():
    try:
        return int(os.environ.get("VERIF_SEED", "0"))
    except ValueError:
        return 0


def rng(*salt):
    """A PRNG derived from VERIF_SEED and a salt (strings/ints); every random choice in a
    check must come from one of these so that a disagreement replays exactly."""
    h = hashlib.sha256(("%d|" % base_seed() + "|".join(str(s) for s in salt)).encode()).digest()
    return random.Random(int.from_bytes(h[:8], "big"))


# --------------------------------------------------------------------------- source fingerprints

def file_hash(paths):
    h = hashlib.sha256()
    for p in sorted(paths):
        h.update(p.encode())
        try:
            with open(p, "rb") as f:
                h.update(f.read())
        except OSError:
            h.update(b"<missing>")
    return h.hexdigest()


def repo_sources():
    out = []
    for pat in ("*.c", "*.h", "*.in", "linux/*.c", "linux/*.h", "linux/config/*", "posix/*.c", "json/*.[ch]",
                "http-parser/*.[ch]", "sha1/*.[ch]", "zlib/*.[ch]"):
        out += glob.glob(os.path.join(SRC, pat))
    out.append(os.path.join(REPO, "cmake", "defaults.cmake"))
    return sorted(out)


_repo_fp = None


def repo_fingerprint():
    global _repo_fp
    if _repo_fp is None:
        _repo_fp = file_hash(repo_sources())
    return _repo_fp


# --------------------------------------------------------------------------- generated config headers

def cmake_defaults():
    """CONFIG_* defaults from cmake/defaults.cmake (the ELSE() SET(NAME value) branch)."""
    txt = open(os.path.join(REPO, "cmake", "defaults.cmake")).read()
    vals = {}
    for m in re.finditer(r"ELSE\(\)\s*SET\((\w+)\s+\"?([^\")]+)\"?\)", txt):
        vals[m.group(1)] = m.group(2).strip()
    return vals


VARIANTS = {
    "default": {},
    # small tables so that refusals (index full, routing table full, write buffer full) are reachable
    "small": {"CONFIG_ELEMENT_TABLE_ORDER": "3", "CONFIG_ROUTING_TABLE_ORDER": "2",
              "CONFIG_INITIAL_FETCH_TABLE_SIZE": "1", "CONFIG_MAX_WRITE_BUFFER_SIZE": "256"},
    "localonly": {"CONFIG_ALLOW_ADD_ONLY_FROM_LOCALHOST": "true"},
    # large messages: paths and values beyond 16-bit lengths fit into one request
    "bigmsg": {"CONFIG_MAX_MESSAGE_SIZE": "131072", "CONFIG_MAX_WRITE_BUFFER_SIZE": "262144"},
}


def config_values(variant="default"):
    vals = cmake_defaults()
    vals.update(VARIANTS[variant])
    vals.setdefault("CJET_VERSION", open(os.path.join(SRC, "cjet_version")).read().strip())
    vals.setdefault("CJET_LAST", "")
    vals.setdefault("PROJECT_NAME", "cjet")
    return vals


def gen_config(variant="default"):
    """Write the three generated headers for a variant; returns the include directory.
    An unresolved ${VAR} in a template is a broken tie (raises)."""
    vals = config_values(variant)
    top = os.path.join(WORK, "gen", variant)
    d = os.path.join(top, "generated")      # sources say #include "generated/cjet_config.h"
    os.makedirs(d, exist_ok=True)
    for tmpl, name in (("cjet_config.h.in", "cjet_config.h"), ("linux/config/os_config.h.in", "os_config.h"),
                       ("version.h.in", "version.h")):
        txt = open(os.path.join(SRC, tmpl)).read()

        def sub(m):
            k = m.group(1)
            if k not in vals:
                raise RuntimeError("config template %s uses unknown variable %s" % (tmpl, k))
            return vals[k]
        txt = re.sub(r"\$\{(\w+)\}", sub, txt)
        txt = re.sub(r"@(\w+)@", sub, txt)
        p = os.path.join(d, name)
        old = open(p).read() if os.path.exists(p) else None
        if old != txt:
            with open(p, "w") as f:
                f.write(txt)
    return top


# --------------------------------------------------------------------------- C harness builds (cached)

SAN = ["-fsanitize=address,undefined", "-fno-sanitize-recover=undefined", "-fno-omit-frame-pointer"]
CSTD = ["-std=gnu99", "-D_GNU_SOURCE", "-DNO_GZIP", "-g", "-O1", "-w"]


def cc_build(name, sources, variant="default", extra_flags=(), link_flags=(), sanitize=True, cxx=False,
             defines=()):
    """Compile `sources` (absolute paths; harness files and /repo/src files) into one binary.
    Cached under WORK/cache keyed by the content of *all* repo sources + the harness sources + flags,
    so a change anywhere under /repo/src rebuilds.  Returns the binary path; raises on compile errors
    (a harness that no longer compiles against the tree is a broken tie and is reported as such)."""
    inc = gen_config(variant)
    flags = list(CSTD) + (SAN if sanitize else []) + ["-I" + inc, "-I" + SRC] + list(extra_flags) + \
        ["-D" + d for d in defines]
    key = hashlib.sha256(json.dumps([name, repo_fingerprint(), file_hash(sources), file_hash(
        glob.glob(os.path.join(inc, "generated", "*.h"))), flags, list(link_flags), cxx]).encode()).hexdigest()[:20]
    outdir = os.path.join(WORK, "cache", key)
    binp = os.path.join(outdir, name)
    if os.path.exists(binp):
        try:
            os.utime(outdir)        # keep entries that are in use away from the pruner
        except OSError:
            pass
        return binp
    tmpdir = outdir + ".tmp%d" % os.getpid()
    shutil.rmtree(tmpdir, ignore_errors=True)
    os.makedirs(tmpdir)
    objs = []
    jobs = []
    for i, s in enumerate(sources):
        o = os.path.join(tmpdir, "%03d_%s.o" % (i, os.path.basename(s)))
        objs.append(o)
        is_cxx = s.endswith((".cpp", ".cc"))
        cc = ["g++", "-std=gnu++17"] if is_cxx else ["gcc"]
        fl = [f for f in flags if not (is_cxx and f.startswith("-std=gnu99"))]
        jobs.append(cc + fl + ["-c", s, "-o", o])
    procs = []
    errs = []
    # simple parallel compile
    pending = list(jobs)
    while pending or procs:
        while pending and len(procs) < NPROC:
            j = pending.pop(0)
            procs.append((j, subprocess.Popen(j, stdout=subprocess.PIPE, stderr=subprocess.STDOUT)))
        j, p = procs.pop(0)
        out, _ = p.communicate()
        if p.returncode != 0:
            errs.append(" ".join(j) + "\n" + out.decode("utf-8", "replace"))
    if errs:
        shutil.rmtree(tmpdir, ignore_errors=True)
        raise BuildError("compile failed for harness %s:\n%s" % (name, "\n".join(errs)[-6000:]))
    ld = ["g++" if cxx or any(s.endswith((".cpp", ".cc")) for s in sources) else "gcc"] + \
        (SAN if sanitize else []) + objs + ["-o", os.path.join(tmpdir, name)] + list(link_flags)
    rc, out, err = sh(ld)
    if rc != 0:
        shutil.rmtree(tmpdir, ignore_errors=True)
        raise BuildError("link failed for harness %s:\n%s" % (name, (out + err)[-6000:]))
    for o in objs:
        os.unlink(o)
    try:
        os.rename(tmpdir, outdir)
    except OSError:
        shutil.rmtree(tmpdir, ignore_errors=True)
    prune_cache()
    return binp


class BuildError(Exception):
    pass


def prune_cache(keep=150, min_age_s=6 * 3600):
    """Drop old cache entries: only beyond `keep` entries and only when unused for hours, so that a
    binary another check is executing right now is never removed."""
    d = os.path.join(WORK, "cache")
    try:
        ents = sorted((os.path.getmtime(os.path.join(d, e)), e) for e in os.listdir(d))
    except OSError:
        return
    now = time.time()
    for mt, e in ents[:-keep]:
        if now - mt > min_age_s:
            shutil.rmtree(os.path.join(d, e), ignore_errors=True)


# --------------------------------------------------------------------------- Lean: build, audit, driver

_lean_built = None


HARNESS_DEGRADED = []      # reasons why a harness of this run observes less than usual (reported in the evidence)
EXTRACTION_FALLBACK = []   # plugins whose patterns no longer match the tree on this run (last extracted values are used)


def lean_build(force=False, targets=None, timeout=3000):
    """Regenerate constants from /repo and build Lean targets.  Returns (ok, log).
    targets=None builds the whole library and every driver (setup); a check passes its own property
    module and drivers so that it is decided by its own proof obligations only."""
    global _lean_built
    if _lean_built is not None and not force:
        return _lean_built
    os.makedirs(WORK, exist_ok=True)
    lock = open(os.path.join(WORK, "lean.lock"), "w")
    fcntl.flock(lock, fcntl.LOCK_EX)
    try:
        ext_ok, ext_log = True, ""
        try:
            sys.path.insert(0, os.path.join(ROOT, "extract"))
            import consts  # noqa
            consts.generate(REPO, os.path.join(LEAN, "Cjet", "Generated", "Consts.lean"))
            if getattr(consts.generate, "plugin_errors", None):
                # the plugin's Generated file now fails to compile: only targets importing it break
                ext_log = "extraction plugins failed: %s\n" % consts.generate.plugin_errors
                EXTRACTION_FALLBACK[:] = list(consts.generate.plugin_errors)
        except Exception as ex:  # extraction pattern no longer matches: broken tie
            ext_ok, ext_log = False, "constants extraction failed: %r" % (ex,)
        # default: the whole library and every driver whose root exists; VERIF_LEAN_TARGETS
        # restricts the build (development aid while other components are mid-edit)
        if os.environ.get("VERIF_LEAN_TARGETS", "").split():
            targets = os.environ.get("VERIF_LEAN_TARGETS", "").split()
        if not targets:
            targets = ["Cjet"] + ["drv_" + os.path.basename(f)[3:-5].lower()
                                  for f in sorted(glob.glob(os.path.join(LEAN, "Drv*.lean")))
                                  if os.path.exists(os.path.join(LEAN, "Cjet", "Drv", os.path.basename(f)[3:]))]
        rc, out, err = sh(["lake", "build"] + targets, cwd=LEAN, timeout=timeout)
        _lean_built = (rc == 0 and ext_ok, ext_log + out[-8000:] + err[-4000:])
    finally:
        fcntl.flock(lock, fcntl.LOCK_UN)
        lock.close()
    return _lean_built


def drv_path(component):
    return os.path.join(LEAN, ".lake", "build", "bin", "drv_" + component)


def run_drv(component, text, args=(), timeout=600):
    """Run the model driver executable drv_<component> (lean/Drv<Component>.lean ->
    Cjet/Drv/<Component>.lean) on a script given as text; returns the list of output lines."""
    if isinstance(text, str):
        text = text.encode()
    rc, out, err = sh([drv_path(component)] + list(args), inp=text, timeout=timeout)
    if rc != 0:
        raise RuntimeError("drv_%s failed rc=%d: %s" % (component, rc, err[-2000:]))
    return out.splitlines()


def strip_comments(txt):
    """Remove Lean comments (nested block comments and line comments) and string literals."""
    out = []
    i, n, depth = 0, len(txt), 0
    while i < n:
        if txt.startswith("/-", i):
            depth += 1
            i += 2
        elif depth and txt.startswith("-/", i):
            depth -= 1
            i += 2
        elif depth:
            if txt[i] == "\n":
                out.append("\n")
            i += 1
        elif txt.startswith("--", i):
            while i < n and txt[i] != "\n":
                i += 1
        elif txt[i] == '"':
            i += 1
            while i < n and txt[i] != '"':
                i += 2 if txt[i] == "\\" else 1
            i += 1
            out.append('""')
        else:
            out.append(txt[i])
            i += 1
    return "".join(out)


def lean_imports(module, seen=None):
    """Transitive closure of Cjet.* modules imported by `module` (file paths)."""
    seen = seen if seen is not None else {}
    path = os.path.join(LEAN, *module.split(".")) + ".lean"
    if module in seen or not os.path.exists(path):
        return seen
    seen[module] = path
    for m in re.finditer(r"^\s*(?:public\s+)?import\s+([\w.]+)", open(path).read(), re.M):
        if m.group(1).startswith("Cjet."):
            lean_imports(m.group(1), seen)
    return seen


THEOREM_RE = re.compile(r"^\s*(?:@\[[^\]]*\]\s*)*(?:protected\s+|private\s+)?theorem\s+([\w.']+)", re.M)


def lean_audit(prop_id):
    """Audit the property module Cjet.Props.<prop_id>:
       obligations = theorems declared in that file; discharged = those whose axioms ⊆ allowed;
       plus a forbidden-token grep over the module and everything of Cjet it imports."""
    module = "Cjet.Props." + prop_id
    path = os.path.join(LEAN, "Cjet", "Props", prop_id + ".lean")
    res = {"module": module, "obligations": [], "discharged": [], "axioms": {}, "forbidden": [], "errors": []}
    if not os.path.exists(path):
        res["errors"].append("missing " + path)
        return res
    src = strip_comments(open(path).read())
    ns = re.findall(r"^\s*namespace\s+([\w.]+)", src, re.M)
    names = THEOREM_RE.findall(src)
    res["obligations"] = names
    for mod, p in lean_imports(module).items():
        for m in FORBIDDEN.finditer(strip_comments(open(p).read())):
            res["forbidden"].append("%s: %s" % (mod, m.group(0).strip()))
    if not names:
        res["errors"].append("no theorems in " + path)
        return res
    os.makedirs(os.path.join(WORK, "audit"), exist_ok=True)
    tmp = os.path.join(WORK, "audit", "Audit_%s_%d.lean" % (prop_id, os.getpid()))
    # theorem names are resolved by opening every namespace the file declares
    opens = "".join("open %s\n" % n for n in dict.fromkeys(ns))
    with open(tmp, "w") as f:
        f.write("import %s\n%s" % (module, opens))
        for nme in names:
            f.write("#print axioms %s\n" % nme)
    rc, out, err = sh(["lake", "env", "lean", tmp], cwd=LEAN, timeout=900)
    os.unlink(tmp)
    txt = out + err
    # parse: "'name' depends on axioms: [a, b]" or "'name' does not depend on any axioms"
    for m in re.finditer(r"'([^']+)' (does not depend on any axioms|depends on axioms: \[([^\]]*)\])", txt, re.S):
        full = m.group(1)
        axs = [a.strip() for a in (m.group(3) or "").replace("\n", " ").split(",") if a.strip()]
        res["axioms"][full] = axs
    for nme in names:
        hit = [k for k in res["axioms"] if k == nme or k.endswith("." + nme)]
        if hit and all(set(res["axioms"][k]) <= ALLOWED_AXIOMS for k in hit):
            res["discharged"].append(nme)
    if rc != 0:
        res["errors"].append("audit lean run failed: " + txt[-1500:])
    return res


def leanchecker(module):
    """Replay a compiled module through the independent checker (thorough tier)."""
    rc, out, err = sh(["lake", "env", "leanchecker", module], cwd=LEAN, timeout=3600)
    return rc == 0, (out + err)[-1500:]


# --------------------------------------------------------------------------- known findings

def known_findings(prop_id=None):
    p = os.path.join(ROOT, "known_findings.json")
    if not os.path.exists(p):
        return []
    ents = json.load(open(p)).get("findings", [])
    return [e for e in ents if prop_id is None or e.get("property") == prop_id]


def open_findings(prop_id):
    return [e for e in known_findings(prop_id) if e.get("status") == "open"]


# --------------------------------------------------------------------------- outcome / evidence

class Outcome:
    """What a property module returns."""

    def __init__(self, prop_id, level="proof"):
        self.prop_id = prop_id
        self.level = level
        self.coverage = {}
        self.assumptions = []
        self.violations = []      # list of dict(replay=..., what=..., no_input=bool)
        self.known = []           # KNOWN-FINDING lines
        self.notes = []

    def violation(self, what, replay_obj, no_input=False):
        os.makedirs(REPLAYS, exist_ok=True)
        body = json.dumps(replay_obj, indent=1, sort_keys=True, default=str)
        h = hashlib.sha256(body.encode()).hexdigest()[:10]
        path = os.path.join(REPLAYS, "%s-%s.json" % (self.prop_id, h))
        with open(path, "w") as f:
            f.write(body)
        self.violations.append({"what": what, "replay": path, "no_input": no_input})

    def known_finding(self, text):
        if text not in self.known:
            self.known.append(text)


def write_evidence(out, tier, wall_s):
    os.makedirs(EVID, exist_ok=True)
    # schema: coverage.exhaustive is one boolean; per-part detail goes to exhaustive_parts
    ex = out.coverage.get("exhaustive")
    if isinstance(ex, dict):
        out.coverage["exhaustive_parts"] = ex
        out.coverage["exhaustive"] = bool(ex) and all(bool(v) for v in ex.values() if isinstance(v, bool))
    elif ex is not None and not isinstance(ex, bool):
        out.coverage["exhaustive_detail"] = ex
        out.coverage["exhaustive"] = bool(ex)
    for k in ("evaluations", "distinct_nontrivial", "states", "transitions", "traces_validated_against_impl", "obligations", "discharged",
              "programs", "disagreements_checked"):
        if k in out.coverage and not isinstance(out.coverage[k], int):
            try:
                out.coverage[k] = int(out.coverage[k])
            except Exception:
                out.coverage[k + "_detail"] = out.coverage.pop(k)
    ev = {
        "property_id": out.prop_id,
        "tier": tier,
        "seed": base_seed(),
        "level": out.level,
        "coverage": out.coverage,
        "assumptions": out.assumptions,
        "wall_s": round(wall_s, 2),
        "violations": len(out.violations),
        "known_findings_printed": out.known,
        "notes": out.notes,
        "repo_fingerprint": repo_fingerprint()[:16],
    }
    p = os.path.join(EVID, out.prop_id + ".json")
    with open(p + ".tmp", "w") as f:
        json.dump(ev, f, indent=1, default=str)
    os.replace(p + ".tmp", p)
    return p


TRUSTED_BASE = [
    "Lean 4.33.0 kernel (thorough tier: leanchecker replay of the property module)",
    "axioms: subset of {propext, Classical.choice, Quot.sound} as printed by #print axioms per theorem; no native_decide, no bv_decide, no own axioms",
    "hand-written Lean model of the anchored C code; tie = correspondence harness compiled from /repo's working tree on this run + constants regenerated from the source",
    "Lean compiler/runtime for the driver executable (execution of definitions is outside the kernel)",
    "gcc 12 ASan/UBSan for the C side of the correspondence",
]


def proof_coverage(out, audit, checker_cmd="lake build && lake env lean <#print axioms per theorem>"):
    out.coverage.update({
        "obligations": len(audit["obligations"]),
        "discharged": len(audit["discharged"]),
        "checker_cmd": checker_cmd,
        "trusted_base": list(TRUSTED_BASE),
        "theorems": audit["obligations"],
        "axioms": audit["axioms"],
    })


def hexs(b):
    return b.hex() if b else "-"


def unhex(s):
    return b"" if s == "-" else bytes.fromhex(s)
