"""MANIFEST.setup_cmd: build the framework from files on disk only (offline)."""
import sys
from vlib import common as C


def main():
    ok, log = C.lean_build(force=True)
    print(log[-3000:])
    print("lean build:", "ok" if ok else "FAILED")
    return 0 if ok else 1


if __name__ == "__main__":
    sys.exit(main())
