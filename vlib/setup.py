"""MANIFEST.setup_cmd: build the framework from files on disk only (offline).

Builds, for every check registered in MANIFEST.json, its property module and its model driver(s); then tries the
rest of the library (modules of properties not yet claimed may be mid-construction and do not fail the setup)."""
import importlib.util
import json
import os
import sys

from vlib import common as C


def main():
    man = json.load(open(os.path.join(C.ROOT, "MANIFEST.json")))
    spec = importlib.util.spec_from_loader("check", loader=None)
    drivers = {"C09": ["bufread", "daemon"], "C10": ["bufwrite"], "C12": ["ws", "daemon"], "C16": ["matcher"], "C17": ["hoptable"],
               "C18": ["utf8"], "C19": ["deflate"], "C20": ["authfile"], "C13": ["http"], "C07": ["daemon", "alloc"]}
    targets = []
    for c in man.get("checks", []):
        pid = c["property_id"]
        if os.path.exists(os.path.join(C.LEAN, "Cjet", "Props", pid + ".lean")):
            targets.append("Cjet.Props." + pid)
        for d in drivers.get(pid, ["daemon"]):
            if "drv_" + d not in targets:
                targets.append("drv_" + d)
    ok, log = C.lean_build(force=True, targets=targets or None)
    print(log[-3000:])
    print("lean build of claimed properties:", "ok" if ok else "FAILED", targets)
    try:
        ok2, log2 = C.lean_build(force=True, timeout=1500)
        print("lean build of the whole library:", "ok" if ok2 else "incomplete (modules of unclaimed properties)")
    except Exception as ex:   # never let the optional part fail the setup
        print("lean build of the whole library: skipped (%r)" % (ex,))
    return 0 if ok else 1


if __name__ == "__main__":
    sys.exit(main())
